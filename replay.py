"""Concrete replay of a harness case (or a batch) against the plain import of /repo.

Run as:  PYTHONPATH=/repo:/verif /venv/bin/python /verif/replay.py CASE.json
Prints one JSON line: {"failed": [labels], "exception": "Name: msg"|null}  (or {"results": [...]} for a batch).
No z3 here: harnesses and reference oracles run on ordinary Python values.
"""
import importlib
import json
import os
import sys
import traceback

VERIF = os.path.dirname(os.path.abspath(__file__))
sys.path.insert(0, VERIF)
sys.path.insert(0, os.environ.get('SYMX_REPO', '/repo'))

from symx import ctx as ctxmod  # noqa: E402


def one(case):
    prop = importlib.import_module('props.' + case['property'])
    fn = prop.HARNESSES[case['harness']]
    c = ctxmod.ConcreteCtx(case['inputs'])
    res = dict(failed=[], exception=None)
    import bitcoin
    bitcoin.SelectParams('mainnet')
    try:
        fn(c, **case.get('params', {}))
    except ctxmod.AssumeFailed:
        res['assume_failed'] = True
    except ctxmod.HarnessBug as e:
        res['harness_bug'] = str(e)
    except Exception as e:
        res['exception'] = '%s: %s' % (type(e).__name__, str(e)[:200])
        res['trace'] = traceback.format_exc()[-600:]
    res['failed'] = c.failed
    res['passed'] = c.passed
    return res


def main():
    with open(sys.argv[1]) as f:
        data = json.load(f)
    if 'batch' in data:
        out = dict(results=[one(c) for c in data['batch']])
    else:
        out = one(data)
    print(json.dumps(out))


if __name__ == '__main__':
    main()
