"""Reference base58 (big-integer definition) and Base58Check."""
ALPHABET = '123456789ABCDEFGHJKLMNPQRSTUVWXYZabcdefghijkmnopqrstuvwxyz'


def bytes_to_int(b):
    n = 0
    for x in b:
        n = n * 256 + x
    return n


def leading(items, val):
    """number of leading items equal to val - caller resolves the forks"""
    k = 0
    for x in items:
        if x == val:
            k += 1
        else:
            break
    return k
