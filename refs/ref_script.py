"""Reference Script tokeniser, number codec, push selection, classification predicates, sigop count.

Written after Bitcoin Core script.cpp/script.h (GetOp, CScriptNum, HasCanonicalPushes (0.9), IsPayToScriptHash,
IsWitnessProgram, IsPushOnly, GetSigOpCount).  Works on symbolic byte strings through ctx.is_true / ctx.concrete.
"""


def tokenize(ctx, b):
    """-> (tokens, ok) ; tokens: list of (opcode, data_or_None, start, end); ok False when a push is truncated
    (tokens then holds the operations before the malformed one)"""
    toks = []
    i = 0
    n = len(b)
    while i < n:
        start = i
        op = b[i]
        i += 1
        if ctx.is_true(op > 0x4e):
            toks.append((op, None, start, i))
            continue
        if ctx.is_true(op < 0x4c):
            size = op
        elif ctx.is_true(op == 0x4c):
            if n - i < 1:
                return toks, False
            size = b[i]
            i += 1
        elif ctx.is_true(op == 0x4d):
            if n - i < 2:
                return toks, False
            size = b[i] + b[i + 1] * 256
            i += 2
        else:
            if n - i < 4:
                return toks, False
            size = b[i] + b[i + 1] * 256 + b[i + 2] * 65536 + b[i + 3] * 16777216
            i += 4
        if ctx.is_true(size > n - i):
            return toks, False
        size = ctx.concrete(size)
        toks.append((op, b[i:i + size], start, i + size))
        i += size
    return toks, True


# ------------------------------------------------------------------------------------------
# script numbers


def num_encode(ctx, v):
    """minimal little-endian sign-magnitude encoding of the integer v (CScriptNum::serialize)"""
    if ctx.is_true(v == 0):
        return ctx.B(b'')
    neg = ctx.is_true(v < 0)
    a = -v if neg else v
    out = []
    while True:
        out.append(a % 256)
        a = a // 256
        if ctx.is_true(a == 0):
            break
    top = out[-1]
    if ctx.is_true(top >= 0x80):
        out.append(0x80 if neg else 0)
    elif neg:
        out[-1] = top + 0x80
    return ctx.bytes_of(out)


def num_decode(ctx, s):
    """CScriptNum::set_vch"""
    n = len(s)
    if n == 0:
        return 0
    r = 0
    for k in range(n):
        r = r + s[k] * (1 << (8 * k))
    top = s[n - 1]
    return ctx.ite(top >= 0x80, -(r - 0x80 * (1 << (8 * (n - 1)))), r)


def is_minimal_num(ctx, s):
    """no superfluous sign byte"""
    n = len(s)
    if n == 0:
        return True
    last = s[n - 1]
    c = (last % 128) != 0
    if n == 1:
        return c
    return ctx.or_(c, s[n - 2] >= 0x80)


# ------------------------------------------------------------------------------------------
# building


def push_encode(ctx, d):
    n = len(d)
    if n < 0x4c:
        return ctx.B(bytes([n])) + d
    if n <= 0xff:
        return ctx.B(bytes([0x4c, n])) + d
    if n <= 0xffff:
        return ctx.B(bytes([0x4d]) + n.to_bytes(2, 'little')) + d
    return ctx.B(bytes([0x4e]) + n.to_bytes(4, 'little')) + d


# ------------------------------------------------------------------------------------------
# predicates


def is_p2sh(ctx, b):
    if len(b) != 23:
        return False
    return ctx.and_(b[0] == 0xa9, b[1] == 0x14, b[22] == 0x87)


def is_witness_program(ctx, b):
    n = len(b)
    if n < 4 or n > 42:
        return False
    small = ctx.or_(b[0] == 0, ctx.and_(b[0] >= 0x51, b[0] <= 0x60))
    return ctx.and_(small, b[1] + 2 == n)


def is_push_only(ctx, b):
    toks, ok = tokenize(ctx, b)
    r = True
    for t in toks:
        r = ctx.and_(r, t[0] <= 0x60)
    # Core: a script with a malformed push is not push-only
    return ctx.and_(r, ok)


def has_canonical_pushes(ctx, b):
    """Bitcoin Core 0.9 CScript::HasCanonicalPushes"""
    toks, ok = tokenize(ctx, b)
    r = True
    for (op, data, s, e) in toks:
        if data is None:
            continue
        bad = False
        if len(data) == 1:
            bad = ctx.and_(op < 0x4c, op > 0, data[0] <= 16)
        bad = ctx.or_(bad, ctx.and_(op == 0x4c, len(data) < 0x4c), ctx.and_(op == 0x4d, len(data) <= 0xff),
                      ctx.and_(op == 0x4e, len(data) <= 0xffff))
        r = ctx.and_(r, ctx.not_(bad))
        if not ctx.is_true(ctx.not_(bad)):
            return False
    if not ok:
        return False
    return r


def is_valid(ctx, b):
    return tokenize(ctx, b)[1]


def sigop_count(ctx, b, accurate):
    toks, ok = tokenize(ctx, b)
    n = 0
    last = 0xff
    for (op, data, s, e) in toks:
        one = ctx.or_(op == 0xac, op == 0xad)
        multi = ctx.or_(op == 0xae, op == 0xaf)
        if accurate:
            add = ctx.ite(ctx.and_(last >= 0x51, last <= 0x60), last - 0x50, 20)
        else:
            add = 20
        n = n + ctx.ite(one, 1, ctx.ite(multi, add, 0))
        last = op
    return n
