"""BIP173 reference: the BCH code over GF(32) from its generator polynomial, bech32 and segwit address rules."""
CHARSET = "qpzry9x8gf2tvdw0s3jn54khce6mua7l"
# generator polynomial g(x) = x^6 + 29 x^5 + 22 x^4 + 20 x^3 + 21 x^2 + 29 x + 18 over GF(32) = GF(2)[a]/(a^5 + a^3 + 1)
G_COEFFS = [29, 22, 20, 21, 29, 18]


def gf32_mul(a, b):
    """concrete GF(32) multiplication modulo a^5 + a^3 + 1"""
    r = 0
    for i in range(5):
        if (b >> i) & 1:
            r ^= a << i
    for i in range(8, 4, -1):
        if (r >> i) & 1:
            r ^= 0b101001 << (i - 5)
    return r


def _pack(coeffs):
    v = 0
    for c in coeffs:
        v = (v << 5) | c
    return v


# GEN[i] = (a^i) * (g(x) - x^6) packed 5 bits per coefficient: derived from the polynomial, not copied from the library
GEN = [_pack([gf32_mul(1 << i, c) for c in G_COEFFS]) for i in range(5)]


def step(ctx, chk, v):
    """one step of the remainder computation: chk*x + v  mod g(x)"""
    top = chk >> 25
    chk = ((chk & 0x1ffffff) << 5) ^ v
    for i in range(5):
        chk = chk ^ ctx.ite(((top >> i) & 1) == 1, GEN[i], 0)
    return chk


def polymod(ctx, values):
    chk = 1
    for v in values:
        chk = step(ctx, chk, v)
    return chk


def hrp_expand(hrp):
    return [ord(c) >> 5 for c in hrp] + [0] + [ord(c) & 31 for c in hrp]


def create_checksum(ctx, hrp, data):
    pm = polymod(ctx, hrp_expand(hrp) + list(data) + [0] * 6) ^ 1
    return [(pm >> (5 * (5 - i))) & 31 for i in range(6)]


def convert_8to5(ctx, prog):
    """pad=True regrouping of bytes into 5-bit groups (concrete length)"""
    bits = []
    for b in prog:
        for i in range(7, -1, -1):
            bits.append((b >> i) & 1)
    while len(bits) % 5:
        bits.append(0)
    out = []
    for k in range(0, len(bits), 5):
        v = 0
        for bit in bits[k:k + 5]:
            v = (v << 1) | bit
        out.append(v)
    return out


def convert_5to8(ctx, data):
    """-> (bytes list, ok) with the BIP173 padding rule: fewer than 5 padding bits, all zero"""
    bits = []
    for d in data:
        for i in range(4, -1, -1):
            bits.append((d >> i) & 1)
    nfull = len(bits) // 8
    out = []
    for k in range(nfull):
        v = 0
        for bit in bits[8 * k:8 * k + 8]:
            v = (v << 1) | bit
        out.append(v)
    pad = bits[8 * nfull:]
    if len(pad) >= 5:
        return out, False
    ok = True
    for bit in pad:
        ok = ctx.and_(ok, bit == 0)
    return out, ok


def encode_address(ctx, hrp, witver, prog):
    data = [witver] + convert_8to5(ctx, prog)
    return data + create_checksum(ctx, hrp, data)   # symbol values after hrp + '1'


def decode_address(ctx, hrp, s):
    """BIP173 segwit address decoding of the (possibly symbolic) string s under the expected hrp.
    -> None or (witver, [program bytes])"""
    n = len(s)
    cps = [ctx.ord1(ch) for ch in s]
    for c in cps:
        if not ctx.is_true(ctx.and_(c >= 33, c <= 126)):
            return None
    has_lower = ctx.or_(*[ctx.and_(c >= 97, c <= 122) for c in cps]) if cps else False
    has_upper = ctx.or_(*[ctx.and_(c >= 65, c <= 90) for c in cps]) if cps else False
    if ctx.is_true(ctx.and_(has_lower, has_upper)):
        return None
    low = [ctx.lower_cp(c) for c in cps]
    pos = -1
    for i in range(n - 1, -1, -1):
        if ctx.is_true(low[i] == 49):
            pos = i
            break
    if pos < 1 or pos + 7 > n or n > 90:
        return None
    data = []
    for c in low[pos + 1:]:
        idx = ctx.str_index(CHARSET, ctx.chr1(c))
        if not ctx.is_true(idx >= 0):
            return None
        data.append(idx)
    # expected prefix
    if pos != len(hrp):
        return None
    if not ctx.is_true(ctx.and_(*[low[i] == ord(hrp[i]) for i in range(pos)])):
        return None
    if not ctx.is_true(polymod(ctx, hrp_expand(hrp) + data) == 1):
        return None
    payload = data[:-6]
    if len(payload) < 1:
        return None
    prog, ok = convert_5to8(ctx, payload[1:])
    if not ctx.is_true(ok):
        return None
    if len(prog) < 2 or len(prog) > 40:
        return None
    ver = payload[0]
    if not ctx.is_true(ver <= 16):
        return None
    if ctx.is_true(ver == 0) and len(prog) not in (20, 32):
        return None
    return (ver, prog)
