"""Reference signature-hash pre-images: the original Satoshi algorithm and BIP143."""
from refs import ref_wire as W

ONE = bytes([1]) + bytes(31)


def legacy_preimage(ctx, f, subscript_wo_codesep, idx, hashtype):
    """returns ('one', reason) or ('pre', bytes).  f: tx fields; subscript already stripped of OP_CODESEPARATOR ops."""
    nin = len(f['vin'])
    if idx >= nin:
        return ('one', 'inIdx')
    ht = hashtype % 32          # hashtype & 0x1f
    acp = (hashtype // 128) % 2  # bit 0x80 (hashtype is one byte here)
    vin = []
    for k, i in enumerate(f['vin']):
        vin.append(dict(hash=i['hash'], n=i['n'], scriptSig=subscript_wo_codesep if k == idx else ctx.B(b''),
                        nSequence=i['nSequence']))
    vout = [dict(o) for o in f['vout']]
    if ctx.is_true(ht == 2):
        vout = []
        for k in range(nin):
            if k != idx:
                vin[k]['nSequence'] = 0
    elif ctx.is_true(ht == 3):
        if idx >= len(vout):
            return ('one', 'outIdx')
        vout = [dict(nValue=-1, scriptPubKey=ctx.B(b'')) for _ in range(idx)] + [vout[idx]]
        for k in range(nin):
            if k != idx:
                vin[k]['nSequence'] = 0
    if ctx.is_true(acp == 1):
        vin = [vin[idx]]
    g = dict(nVersion=f['nVersion'], vin=vin, vout=vout, nLockTime=f['nLockTime'], wit=None)
    return ('pre', W.tx(ctx, g, with_witness=False) + W.le(ctx, hashtype, 4, signed=True))


def strip_codeseparators(ctx, tokens):
    """tokens: list of ('op', byte) | ('push', header_bytes, data_bytes); returns script bytes without 0xab ops"""
    out = ctx.B(b'')
    for t in tokens:
        if t[0] == 'op':
            if ctx.is_true(t[1] == 0xab):
                continue
            out = out + ctx.bytes_of([t[1]])
        else:
            out = out + t[1] + t[2]
    return out


def tokens_bytes(ctx, tokens):
    out = ctx.B(b'')
    for t in tokens:
        if t[0] == 'op':
            out = out + ctx.bytes_of([t[1]])
        else:
            out = out + t[1] + t[2]
    return out


def bip143_preimage(ctx, f, script_code, idx, amount, hashtype):
    ht = hashtype % 32
    acp = (hashtype // 128) % 2
    zero = ctx.B(bytes(32))
    single = ctx.is_true(ht == 3)
    none = (not single) and ctx.is_true(ht == 2)
    anyone = ctx.is_true(acp == 1)
    if not anyone:
        pre = ctx.B(b'')
        for i in f['vin']:
            pre = pre + W.outpoint(ctx, i)
        hash_prevouts = ctx.dsha256(pre)
    else:
        hash_prevouts = zero
    if not anyone and not single and not none:
        pre = ctx.B(b'')
        for i in f['vin']:
            pre = pre + W.le(ctx, i['nSequence'], 4)
        hash_sequence = ctx.dsha256(pre)
    else:
        hash_sequence = zero
    if not single and not none:
        pre = ctx.B(b'')
        for o in f['vout']:
            pre = pre + W.txout(ctx, o)
        hash_outputs = ctx.dsha256(pre)
    elif single and idx < len(f['vout']):
        hash_outputs = ctx.dsha256(W.txout(ctx, f['vout'][idx]))
    else:
        hash_outputs = zero
    me = f['vin'][idx]
    return (W.le(ctx, f['nVersion'], 4, signed=True) + hash_prevouts + hash_sequence + W.outpoint(ctx, me) +
            W.varbytes(ctx, script_code) + W.le(ctx, amount, 8, signed=True) + W.le(ctx, me['nSequence'], 4) +
            hash_outputs + W.le(ctx, f['nLockTime'], 4) + W.le(ctx, hashtype, 4, signed=True))
