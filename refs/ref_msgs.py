"""Reference P2P framing and payload layouts (Bitcoin protocol documentation / Bitcoin Core net + protocol.h)."""
from refs import ref_wire as W

MAGIC = {'mainnet': bytes.fromhex('f9beb4d9'), 'testnet': bytes.fromhex('0b110907'), 'signet': bytes.fromhex('0a03cf40'),
         'regtest': bytes.fromhex('fabfb5da')}
COMMANDS = ['version', 'verack', 'addr', 'alert', 'inv', 'getdata', 'notfound', 'getblocks', 'getheaders', 'headers', 'tx',
            'block', 'getaddr', 'ping', 'pong', 'reject', 'mempool']
MAX_SIZE = 0x02000000
IPV4_COMPAT = bytes(10) + b'\xff\xff'


def frame(ctx, chain, command, payload):
    cmd = command.encode('ascii')
    return (ctx.B(MAGIC[chain]) + ctx.B(cmd + bytes(12 - len(cmd))) + W.le(ctx, len(payload), 4) +
            ctx.dsha256(payload)[:4] + payload)


def netaddr(ctx, a, with_time):
    """a: dict(time, services, ip16 (16 packed bytes), port)"""
    out = ctx.B(b'')
    if with_time:
        out = out + W.le(ctx, a['time'], 4)
    return out + W.le(ctx, a['services'], 8) + a['ip16'] + W.be(ctx, a['port'], 2)


def varstr(ctx, b):
    return W.varbytes(ctx, b)


def inv_vector(ctx, items):
    out = W.compact_size(ctx, len(items))
    for t, h in items:
        out = out + W.le(ctx, t, 4, signed=True) + h
    return out


def locator(ctx, version, hashes, stop):
    out = W.le(ctx, version, 4, signed=True) + W.compact_size(ctx, len(hashes))
    for h in hashes:
        out = out + h
    return out + stop


def version_payload(ctx, f):
    return (W.le(ctx, f['nVersion'], 4, signed=True) + W.le(ctx, f['nServices'], 8) + W.le(ctx, f['nTime'], 8, signed=True) +
            netaddr(ctx, f['addrTo'], False) + netaddr(ctx, f['addrFrom'], False) + W.le(ctx, f['nNonce'], 8) +
            varstr(ctx, f['strSubVer']) + W.le(ctx, f['nStartingHeight'], 4, signed=True) + W.le(ctx, f['fRelay'], 1))


def headers_payload(ctx, hfs):
    """each header is followed by a transaction count (CompactSize 0): 81 bytes per entry"""
    out = W.compact_size(ctx, len(hfs))
    for hf in hfs:
        out = out + W.header(ctx, hf) + ctx.B(b'\x00')
    return out


def parse_frame(ctx, chain, stream):
    """expected outcome of reading one frame from `stream` (bytes, possibly symbolic; length concrete):
    ('trunc',) | ('badmagic',) | ('toolong',) | ('badsum',) | ('ok', command_bytes, payload, consumed)"""
    n = len(stream)
    if n < 24:
        return ('trunc',)
    if not ctx.is_true(stream[:4] == ctx.B(MAGIC[chain])):
        return ('badmagic',)
    L = stream[16] + stream[17] * 256 + stream[18] * 65536 + stream[19] * 16777216
    if ctx.is_true(L > MAX_SIZE):
        return ('toolong',)
    if ctx.is_true(L > n - 24):
        return ('trunc',)
    L = ctx.concrete(L)
    payload = stream[24:24 + L]
    if not ctx.is_true(stream[20:24] == ctx.dsha256(payload)[:4]):
        return ('badsum',)
    return ('ok', stream[4:16], payload, 24 + L)
