"""Reference Script interpreter after Bitcoin Core script/interpreter.cpp (0.10 era), restricted to the flags the
library implements: P2SH, NULLDUMMY, CLEANSTACK, DISCOURAGE_UPGRADABLE_NOPS.  Signature checking goes through the
oracle predicate ctx.V(pubkey, sighash, sig); the sighash digest is the library's RawSignatureHash (decided
separately by C03) applied to the reference's own script code.

Works on symbolic byte strings (concrete lengths) through ctx.is_true / ctx.concrete.
"""
from refs import ref_script as RS

MAX_SCRIPT_SIZE = 10000
MAX_ELEMENT = 520
MAX_OPS = 201
MAX_STACK = 1000
DISABLED = (0x65, 0x66, 0x7e, 0x7f, 0x80, 0x81, 0x83, 0x84, 0x85, 0x86, 0x8d, 0x8e, 0x95, 0x96, 0x97, 0x98, 0x99)
# (VERIF, VERNOTIF are "always invalid" in Core as well: they fail even in an unexecuted branch)


class Fail(Exception):
    pass


def cast_bool(ctx, b):
    n = len(b)
    if n == 0:
        return False
    conds = [b[i] != 0 for i in range(n - 1)]
    conds.append(ctx.and_(b[n - 1] != 0, b[n - 1] != 0x80))
    return ctx.or_(*conds)


def num(ctx, b):
    if len(b) > 4:
        raise Fail('script number overflow')
    return RS.num_decode(ctx, b)


def enc(ctx, v):
    return RS.num_encode(ctx, v)


def vbool(ctx, c):
    return ctx.B(b'\x01') if c else ctx.B(b'')


def find_and_delete(ctx, script, pattern):
    """Core FindAndDelete: drop every occurrence of `pattern` that starts at an operation boundary"""
    n = len(script)
    m = len(pattern)
    if m == 0:
        return script
    out = ctx.B(b'')
    i = 0
    copy_from = 0
    while True:
        # at an op boundary i: skip matches
        out = out + script[copy_from:i]
        while n - i >= m and ctx.is_true(script[i:i + m] == pattern):
            i += m
        copy_from = i
        if i >= n:
            break
        toks, ok = RS.tokenize(ctx, script[i:])
        if not toks:
            break           # malformed op at i: GetOp fails, loop ends
        i = i + toks[0][3]
    out = out + script[copy_from:]
    return out


class Checker(object):
    def __init__(self, ctx, tx, idx, fields=None):
        """fields: reference field values of tx; when given, the signature hash is computed by the reference
        (refs/ref_sighash.py) instead of the library's RawSignatureHash"""
        self.ctx, self.tx, self.idx, self.fields = ctx, tx, idx, fields

    def check_sig(self, sig, pubkey, script_code):
        ctx = self.ctx
        if len(sig) == 0:
            return False
        hashtype = sig[len(sig) - 1]
        der = sig[:len(sig) - 1]
        if len(der) == 0:
            return False
        if self.fields is not None:
            from refs import ref_sighash as SH
            toks, ok = RS.tokenize(ctx, script_code)
            stripped = ctx.B(b'')
            last = 0
            for (op, data, s0, e0) in toks:
                if data is None and ctx.is_true(op == 0xab):
                    continue
                stripped = stripped + script_code[s0:e0]
                last = e0
            if not ok:
                # FindAndDelete semantics on a script with a malformed tail: the remainder is kept verbatim
                stripped = stripped + script_code[(toks[-1][3] if toks else 0):]
            r = SH.legacy_preimage(ctx, self.fields, stripped, self.idx, hashtype)
            h = ctx.B(SH.ONE) if r[0] == 'one' else ctx.dsha256(r[1])
            return ctx.V(pubkey, h, der)
        S = ctx.script
        (h, err) = S.RawSignatureHash(S.CScript(script_code), self.tx, self.idx, hashtype)
        return ctx.V(pubkey, h, der)


def _need(stack, n):
    if len(stack) < n:
        raise Fail('stack size')


def eval_script(ctx, stack, script, flags, checker):
    """executes `script` (bytes, possibly symbolic) on `stack` (python list, mutated). raises Fail on script failure"""
    if len(script) > MAX_SCRIPT_SIZE:
        raise Fail('script size')
    altstack = []
    vf = []
    nops = 0
    begincode = 0
    pos = 0
    n = len(script)
    while pos < n:
        toks, ok = RS.tokenize(ctx, script[pos:])
        if not toks:
            raise Fail('bad opcode / truncated push')
        op, data, s0, e0 = toks[0]
        pc_start = pos
        pos += e0
        fexec = all(vf)
        if data is not None and len(data) > MAX_ELEMENT:
            raise Fail('push size')
        if data is None:
            op = ctx.concrete(op)     # one fork per opcode value actually reachable
        if data is None and op > 0x60:
            nops += 1
            if nops > MAX_OPS:
                raise Fail('op count')
        if data is None and op in DISABLED:
            raise Fail('disabled opcode')
        if data is not None:
            if fexec:
                stack.append(data)
        elif fexec or (0x63 <= op <= 0x68):
            _step(ctx, op, stack, altstack, vf, fexec, flags, checker, script, begincode, nops_box=None)
            if op == 0xab:
                begincode = pc_start
            if op in (0xae, 0xaf):
                pass
        if len(stack) + len(altstack) > MAX_STACK:
            raise Fail('stack size limit')
        # multisig adds its key count to the op counter
        if getattr(_step, 'extra_ops', 0):
            nops += _step.extra_ops
            _step.extra_ops = 0
            if nops > MAX_OPS:
                raise Fail('op count')
    if vf:
        raise Fail('unbalanced conditional')


def _step(ctx, op, stack, altstack, vf, fexec, flags, checker, script, begincode, nops_box):
    B = ctx.B
    if op == 0x4f or 0x51 <= op <= 0x60:
        stack.append(enc(ctx, op - 0x50))
    elif op == 0x61:
        pass
    elif 0xb0 <= op <= 0xb9:
        if 'DISCOURAGE' in flags:
            raise Fail('discouraged upgradable nop')
    elif op in (0x63, 0x64):
        val = False
        if fexec:
            _need(stack, 1)
            v = ctx.is_true(cast_bool(ctx, stack.pop()))
            val = (not v) if op == 0x64 else v
        vf.append(val)
    elif op == 0x67:
        if not vf:
            raise Fail('else without if')
        vf[-1] = not vf[-1]
    elif op == 0x68:
        if not vf:
            raise Fail('endif without if')
        vf.pop()
    elif op == 0x69:
        _need(stack, 1)
        if ctx.is_true(cast_bool(ctx, stack[-1])):
            stack.pop()
        else:
            raise Fail('verify')
    elif op == 0x6a:
        raise Fail('op_return')
    elif op == 0x6b:
        _need(stack, 1)
        altstack.append(stack.pop())
    elif op == 0x6c:
        if len(altstack) < 1:
            raise Fail('altstack')
        stack.append(altstack.pop())
    elif op == 0x6d:
        _need(stack, 2)
        stack.pop()
        stack.pop()
    elif op == 0x6e:
        _need(stack, 2)
        stack.extend([stack[-2], stack[-1]])
    elif op == 0x6f:
        _need(stack, 3)
        stack.extend([stack[-3], stack[-2], stack[-1]])
    elif op == 0x70:
        _need(stack, 4)
        stack.extend([stack[-4], stack[-3]])
    elif op == 0x71:
        _need(stack, 6)
        a, b = stack[-6], stack[-5]
        del stack[-6:-4]
        stack.extend([a, b])
    elif op == 0x72:
        _need(stack, 4)
        stack[-4], stack[-3], stack[-2], stack[-1] = stack[-2], stack[-1], stack[-4], stack[-3]
    elif op == 0x73:
        _need(stack, 1)
        if ctx.is_true(cast_bool(ctx, stack[-1])):
            stack.append(stack[-1])
    elif op == 0x74:
        stack.append(enc(ctx, len(stack)))
    elif op == 0x75:
        _need(stack, 1)
        stack.pop()
    elif op == 0x76:
        _need(stack, 1)
        stack.append(stack[-1])
    elif op == 0x77:
        _need(stack, 2)
        del stack[-2]
    elif op == 0x78:
        _need(stack, 2)
        stack.append(stack[-2])
    elif op in (0x79, 0x7a):
        _need(stack, 2)
        k = num(ctx, stack.pop())
        if ctx.is_true(ctx.or_(k < 0, k >= len(stack))):
            raise Fail('pick/roll range')
        k = ctx.concrete(k)
        v = stack[-k - 1]
        if op == 0x7a:
            del stack[-k - 1]
        stack.append(v)
    elif op == 0x7b:
        _need(stack, 3)
        stack[-3], stack[-2], stack[-1] = stack[-2], stack[-1], stack[-3]
    elif op == 0x7c:
        _need(stack, 2)
        stack[-2], stack[-1] = stack[-1], stack[-2]
    elif op == 0x7d:
        _need(stack, 2)
        stack.insert(len(stack) - 2, stack[-1])
    elif op == 0x82:
        _need(stack, 1)
        stack.append(enc(ctx, len(stack[-1])))
    elif op in (0x87, 0x88):
        _need(stack, 2)
        a = stack.pop()
        b = stack.pop()
        eq = (len(a) == len(b)) and ctx.is_true(a == b)
        if op == 0x88:
            if not eq:
                raise Fail('equalverify')
        else:
            stack.append(vbool(ctx, eq))
    elif op in (0x8b, 0x8c, 0x8f, 0x90, 0x91, 0x92):
        _need(stack, 1)
        v = num(ctx, stack[-1])
        stack.pop()
        if op == 0x8b:
            r = v + 1
        elif op == 0x8c:
            r = v - 1
        elif op == 0x8f:
            r = -v
        elif op == 0x90:
            r = ctx.ite(v < 0, -v, v)
        elif op == 0x91:
            r = ctx.ite(v == 0, 1, 0)
        else:
            r = ctx.ite(v != 0, 1, 0)
        stack.append(enc(ctx, r))
    elif 0x93 <= op <= 0xa4 and op not in (0x95, 0x96, 0x97, 0x98, 0x99):
        _need(stack, 2)
        b2 = num(ctx, stack[-1])
        b1 = num(ctx, stack[-2])
        one = lambda c: ctx.ite(c, 1, 0)
        if op == 0x93:
            r = b1 + b2
        elif op == 0x94:
            r = b1 - b2
        elif op == 0x9a:
            r = one(ctx.and_(b1 != 0, b2 != 0))
        elif op == 0x9b:
            r = one(ctx.or_(b1 != 0, b2 != 0))
        elif op in (0x9c, 0x9d):
            r = one(b1 == b2)
        elif op == 0x9e:
            r = one(b1 != b2)
        elif op == 0x9f:
            r = one(b1 < b2)
        elif op == 0xa0:
            r = one(b1 > b2)
        elif op == 0xa1:
            r = one(b1 <= b2)
        elif op == 0xa2:
            r = one(b1 >= b2)
        elif op == 0xa3:
            r = ctx.ite(b1 < b2, b1, b2)
        else:
            r = ctx.ite(b1 > b2, b1, b2)
        stack.pop()
        stack.pop()
        res = enc(ctx, r)
        if op == 0x9d:
            if not ctx.is_true(cast_bool(ctx, res)):
                raise Fail('numequalverify')
        else:
            stack.append(res)
    elif op == 0xa5:
        _need(stack, 3)
        b3 = num(ctx, stack[-1])
        b2 = num(ctx, stack[-2])
        b1 = num(ctx, stack[-3])
        del stack[-3:]
        stack.append(vbool(ctx, ctx.is_true(ctx.and_(b2 <= b1, b1 < b3))))
    elif op == 0xa6:
        _need(stack, 1)
        stack.append(ctx.ripemd160(stack.pop()))
    elif op == 0xa7:
        _need(stack, 1)
        stack.append(ctx.sha1(stack.pop()))
    elif op == 0xa8:
        _need(stack, 1)
        stack.append(ctx.sha256(stack.pop()))
    elif op == 0xa9:
        _need(stack, 1)
        stack.append(ctx.hash160(stack.pop()))
    elif op == 0xaa:
        _need(stack, 1)
        stack.append(ctx.dsha256(stack.pop()))
    elif op == 0xab:
        pass
    elif op in (0xac, 0xad):
        _need(stack, 2)
        sig, pub = stack[-2], stack[-1]
        code = find_and_delete(ctx, script[begincode:], RS.push_encode(ctx, sig))
        ok = ctx.is_true(checker.check_sig(sig, pub, code))
        stack.pop()
        stack.pop()
        if op == 0xad:
            if not ok:
                raise Fail('checksigverify')
        else:
            stack.append(vbool(ctx, ok))
    elif op in (0xae, 0xaf):
        i = 1
        _need(stack, i)
        nkeys = num(ctx, stack[-i])
        if ctx.is_true(ctx.or_(nkeys < 0, nkeys > 20)):
            raise Fail('key count')
        nkeys = ctx.concrete(nkeys)
        _step.extra_ops = nkeys
        i += 1
        ikey = i
        i += nkeys
        _need(stack, i)
        nsigs = num(ctx, stack[-i])
        if ctx.is_true(ctx.or_(nsigs < 0, nsigs > nkeys)):
            raise Fail('sig count')
        nsigs = ctx.concrete(nsigs)
        i += 1
        isig = i
        i += nsigs
        _need(stack, i)
        code = script[begincode:]
        for k in range(nsigs):
            code = find_and_delete(ctx, code, RS.push_encode(ctx, stack[-isig - k]))
        success = True
        ks, ss = nkeys, nsigs
        while success and ss > 0:
            if ctx.is_true(checker.check_sig(stack[-isig], stack[-ikey], code)):
                isig += 1
                ss -= 1
            ikey += 1
            ks -= 1
            if ss > ks:
                success = False
        for _ in range(i - 1):
            stack.pop()
        _need(stack, 1)
        if 'NULLDUMMY' in flags and len(stack[-1]) != 0:
            raise Fail('nulldummy')
        stack.pop()
        if op == 0xaf:
            if not success:
                raise Fail('checkmultisigverify')
        else:
            stack.append(vbool(ctx, success))
    else:
        raise Fail('bad opcode 0x%x' % op)


_step.extra_ops = 0


def is_push_only_bytes(ctx, b):
    return ctx.is_true(RS.is_push_only(ctx, b))


def verify_script(ctx, script_sig, script_pubkey, flags, checker):
    """-> True (accept) / False (reject)"""
    _step.extra_ops = 0
    try:
        stack = []
        eval_script(ctx, stack, script_sig, flags, checker)
        copy = list(stack)
        eval_script(ctx, stack, script_pubkey, flags, checker)
        if not stack or not ctx.is_true(cast_bool(ctx, stack[-1])):
            return False
        if 'P2SH' in flags and ctx.is_true(RS.is_p2sh(ctx, script_pubkey)):
            if not is_push_only_bytes(ctx, script_sig):
                return False
            stack = copy
            if not stack:
                return False
            redeem = stack.pop()
            eval_script(ctx, stack, redeem, flags, checker)
            if not stack or not ctx.is_true(cast_bool(ctx, stack[-1])):
                return False
        if 'CLEANSTACK' in flags:
            if len(stack) != 1:
                return False
        return True
    except Fail:
        return False
    finally:
        _step.extra_ops = 0
