"""Reference definitions (deliberately naive, written from the protocol documents).

They operate on whatever values the context hands out (symbolic proxies under the explorer,
plain ints/bytes in concrete replay), using only Python operators and ctx helpers.
"""

# ------------------------------------------------------------------------------------------
# compact targets (Bitcoin Core arith_uint256::SetCompact / GetCompact)


def compact_fields(c):
    e = c // (1 << 24)
    sign = (c // (1 << 23)) % 2
    m = c % (1 << 23)
    return e, sign, m


def compact_decode_abs(ctx, c):
    """|target| denoted by c: mantissa(23 bits) * 256^(e-3), truncated for e < 3"""
    e, sign, m = compact_fields(c)
    down = ctx.ite(e <= 3, 3 - e, 0)
    up = ctx.ite(e <= 3, 0, e - 3)
    return (m >> (8 * down)) << (8 * up)


def compact_decode_24(ctx, c):
    """value for sign-bit-clear compacts using the whole 24-bit mantissa field"""
    e = c // (1 << 24)
    m = c % (1 << 24)
    down = ctx.ite(e <= 3, 3 - e, 0)
    up = ctx.ite(e <= 3, 0, e - 3)
    return (m >> (8 * down)) << (8 * up)


def nbytes_of(ctx, v, maxbytes=32):
    """number of bytes in the minimal big-endian form of v (0 for v == 0)"""
    n = 0
    for k in range(1, maxbytes + 1):
        n = ctx.ite(v >= (1 << (8 * (k - 1))), k, n)
    return n


def trunc3_signsafe(ctx, v, maxbytes=32):
    """v truncated to the three most significant bytes of its sign-safe big-endian form
    (a leading zero byte is counted when the top bit of the minimal form is set) - Core's GetCompact"""
    n = nbytes_of(ctx, v, maxbytes)
    top = ctx.ite(n >= 1, v >> (8 * ctx.ite(n >= 1, n - 1, 0)), 0)
    n2 = ctx.ite(top >= 0x80, n + 1, n)
    sh = ctx.ite(n2 > 3, n2 - 3, 0)
    return (v >> (8 * sh)) << (8 * sh)


def pow_ok(ctx, limit, h_le_int, c):
    e, sign, m = compact_fields(c)
    negative = ctx.and_(m != 0, sign == 1)
    overflow = ctx.and_(m != 0, ctx.or_(e > 34, ctx.and_(m > 0xff, e > 33), ctx.and_(m > 0xffff, e > 32)))
    target = compact_decode_abs(ctx, c)
    return ctx.and_(ctx.not_(negative), target != 0, ctx.not_(overflow), target <= limit, h_le_int <= target)


def int_from_le(b):
    r = 0
    k = 0
    for x in b:
        r = r + (x << (8 * k))
        k += 1
    return r
