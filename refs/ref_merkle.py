"""Reference Bitcoin merkle root (last node paired with itself on odd levels)."""


def merkle_root(ctx, leaves):
    level = list(leaves)
    assert level
    while len(level) > 1:
        if len(level) % 2:
            level.append(level[-1])
        level = [ctx.dsha256(level[i] + level[i + 1]) for i in range(0, len(level), 2)]
    return level[0]
