"""Reference MurmurHash3 x86_32 (Appleby, public domain) and the BIP37 bit schedule."""
M32 = 1 << 32
C1 = 0xcc9e2d51
C2 = 0x1b873593


def rotl32(x, r):
    return ((x << r) % M32) | (x >> (32 - r))


def murmur3(ctx, seed, data):
    n = len(data)
    h = seed
    nblocks = n // 4
    for b in range(nblocks):
        k = data[4 * b] + (data[4 * b + 1] << 8) + (data[4 * b + 2] << 16) + (data[4 * b + 3] << 24)
        k = (k * C1) % M32
        k = rotl32(k, 15)
        k = (k * C2) % M32
        h = h ^ k
        h = rotl32(h, 13)
        h = (h * 5 + 0xe6546b64) % M32
    t = 4 * nblocks
    k = 0
    r = n & 3
    if r == 3:
        k = k ^ (data[t + 2] << 16)
    if r >= 2:
        k = k ^ (data[t + 1] << 8)
    if r >= 1:
        k = k ^ data[t]
        k = (k * C1) % M32
        k = rotl32(k, 15)
        k = (k * C2) % M32
        h = h ^ k
    h = h ^ n
    h = h ^ (h >> 16)
    h = (h * 0x85ebca6b) % M32
    h = h ^ (h >> 13)
    h = (h * 0xc2b2ae35) % M32
    h = h ^ (h >> 16)
    return h


def schedule(ctx, nbits, nhash, tweak, elem, murmur=None):
    mm = murmur or (lambda seed, data: murmur3(ctx, seed, data))
    return [mm((i * 0xFBA4C795 + tweak) % M32, elem) % nbits for i in range(nhash)]
