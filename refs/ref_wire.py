"""Reference wire encoders (Bitcoin protocol documentation / BIP144), built from to_bytes and
concatenation only: no struct, no BytesIO, no library call."""


def le(ctx, v, n, signed=False):
    """n-byte little-endian two's complement of v"""
    if signed:
        v = v & ((1 << (8 * n)) - 1)
    return ctx.B(v.to_bytes(n, 'little'))


def be(ctx, v, n):
    return ctx.B(v.to_bytes(n, 'big'))


def compact_size(ctx, n):
    """n is a concrete non-negative int"""
    if n < 0xfd:
        return ctx.B(bytes([n]))
    if n <= 0xffff:
        return ctx.B(b'\xfd' + n.to_bytes(2, 'little'))
    if n <= 0xffffffff:
        return ctx.B(b'\xfe' + n.to_bytes(4, 'little'))
    return ctx.B(b'\xff' + n.to_bytes(8, 'little'))


def compact_size_sym(ctx, n):
    """n may be symbolic: forks on the size class"""
    if ctx.is_true(n < 0xfd):
        return le(ctx, n, 1)
    if ctx.is_true(n <= 0xffff):
        return ctx.B(b'\xfd') + le(ctx, n, 2)
    if ctx.is_true(n <= 0xffffffff):
        return ctx.B(b'\xfe') + le(ctx, n, 4)
    return ctx.B(b'\xff') + le(ctx, n, 8)


def varbytes(ctx, b):
    return compact_size(ctx, len(b)) + b


def outpoint(ctx, f):
    return f['hash'] + le(ctx, f['n'], 4)


def txin(ctx, f):
    return outpoint(ctx, f) + varbytes(ctx, f['scriptSig']) + le(ctx, f['nSequence'], 4)


def txout(ctx, f):
    return le(ctx, f['nValue'], 8, signed=True) + varbytes(ctx, f['scriptPubKey'])


def has_witness(f):
    w = f.get('wit')
    return bool(w) and any(len(st) > 0 for st in w)


def tx(ctx, f, with_witness=True):
    """f: dict(nVersion, vin=[...], vout=[...], nLockTime, wit=None|[[item,...] per input])"""
    out = le(ctx, f['nVersion'], 4, signed=True)
    ext = with_witness and has_witness(f)
    if ext:
        out = out + ctx.B(b'\x00\x01')
    out = out + compact_size(ctx, len(f['vin']))
    for i in f['vin']:
        out = out + txin(ctx, i)
    out = out + compact_size(ctx, len(f['vout']))
    for o in f['vout']:
        out = out + txout(ctx, o)
    if ext:
        assert len(f['wit']) == len(f['vin'])
        for st in f['wit']:
            out = out + compact_size(ctx, len(st))
            for item in st:
                out = out + varbytes(ctx, item)
    out = out + le(ctx, f['nLockTime'], 4)
    return out


def header(ctx, f):
    return (le(ctx, f['nVersion'], 4, signed=True) + f['hashPrevBlock'] + f['hashMerkleRoot'] +
            le(ctx, f['nTime'], 4) + le(ctx, f['nBits'], 4) + le(ctx, f['nNonce'], 4))


def block(ctx, hf, txs, with_witness=True):
    out = header(ctx, hf) + compact_size(ctx, len(txs))
    for t in txs:
        out = out + tx(ctx, t, with_witness)
    return out
