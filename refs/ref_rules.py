"""Reference context-free acceptance rules (Bitcoin Core CheckTransaction / CheckBlock / BIP141 commitment)."""
from refs import ref_wire as W
from refs import ref_script as RS
from refs import ref_merkle as M

MAX_BLOCK_SIZE = 1000000
MAX_BLOCK_WEIGHT = 4000000
MAX_SIGOPS = 20000
COMMIT_MAGIC = bytes([0x6a, 0x24, 0xaa, 0x21, 0xa9, 0xed])


def is_null_prevout(ctx, i):
    return ctx.and_(i['hash'] == ctx.B(bytes(32)), i['n'] == 0xffffffff)


def is_coinbase(ctx, f):
    if len(f['vin']) != 1:
        return False
    return is_null_prevout(ctx, f['vin'][0])


def check_tx(ctx, f, max_money):
    """-> symbolic bool: the transaction passes the context-free checks"""
    if len(f['vin']) == 0 or len(f['vout']) == 0:
        return False
    if len(W.tx(ctx, f, with_witness=False)) > MAX_BLOCK_SIZE:
        return False
    conds = []
    total = 0
    for o in f['vout']:
        conds.append(ctx.and_(o['nValue'] >= 0, o['nValue'] <= max_money))
        total = total + o['nValue']
        conds.append(ctx.and_(total >= 0, total <= max_money))
    vin = f['vin']
    for a in range(len(vin)):
        for b in range(a + 1, len(vin)):
            conds.append(ctx.not_(ctx.and_(vin[a]['hash'] == vin[b]['hash'], vin[a]['n'] == vin[b]['n'])))
    cb = is_coinbase(ctx, f)
    sl = len(vin[0]['scriptSig'])
    cb_ok = 2 <= sl <= 100
    nonull = ctx.and_(*[ctx.not_(is_null_prevout(ctx, i)) for i in vin])
    conds.append(ctx.ite_bool(cb, cb_ok, nonull))
    return ctx.and_(*conds)


def legacy_sigops(ctx, f):
    n = 0
    for i in f['vin']:
        n = n + RS.sigop_count(ctx, i['scriptSig'], False)
    for o in f['vout']:
        n = n + RS.sigop_count(ctx, o['scriptPubKey'], False)
    return n


def commitment_index(ctx, coinbase):
    """BIP141: last output whose script is at least 38 bytes and starts with the commitment header"""
    idx = None
    for k, o in enumerate(coinbase['vout']):
        s = o['scriptPubKey']
        if len(s) >= 38 and ctx.is_true(s[:6] == ctx.B(COMMIT_MAGIC)):
            idx = k
    return idx


def check_block(ctx, hf, txs, max_money, cur_time, pow_ok):
    """-> symbolic bool.  txs: list of tx field dicts.  pow_ok: symbolic bool or True when PoW is not checked"""
    if len(txs) == 0:
        return False
    conds = [pow_ok, ctx.not_(hf['nTime'] > cur_time + 7200)]
    if len(W.block(ctx, hf, txs, with_witness=False)) > MAX_BLOCK_SIZE:
        return False
    if 3 * len(W.block(ctx, hf, txs, with_witness=False)) + len(W.block(ctx, hf, txs)) > MAX_BLOCK_WEIGHT:
        return False
    conds.append(is_coinbase(ctx, txs[0]))
    for t in txs[1:]:
        conds.append(ctx.not_(is_coinbase(ctx, t)))
    sig = 0
    for t in txs:
        conds.append(check_tx(ctx, t, max_money))
        sig = sig + legacy_sigops(ctx, t)
    conds.append(sig <= MAX_SIGOPS)
    txids = [ctx.dsha256(W.tx(ctx, t, with_witness=False)) for t in txs]
    for a in range(len(txids)):
        for b in range(a + 1, len(txids)):
            conds.append(ctx.not_(txids[a] == txids[b]))
    conds.append(hf['hashMerkleRoot'] == M.merkle_root(ctx, txids))
    if any(W.has_witness(t) for t in txs):
        cb = txs[0]
        w = cb.get('wit')
        if not w or len(w) < 1 or len(w[0]) != 1 or len(w[0][0]) != 32:
            return False
        k = commitment_index(ctx, cb)
        if k is None:
            return False
        wl = [ctx.B(bytes(32))] + [ctx.dsha256(W.tx(ctx, t)) for t in txs[1:]]
        wroot = M.merkle_root(ctx, wl)
        conds.append(cb['vout'][k]['scriptPubKey'][6:38] == ctx.dsha256(wroot + w[0][0]))
    return ctx.and_(*conds)
