"""Reference RIPEMD-160 written from the specification (Dobbertin, Bosselaers, Preneel 1996), independent table layout."""
M32 = 0xffffffff


def _rol(x, n):
    return ((x << n) & M32) | (x >> (32 - n))


def _f(j, x, y, z):
    if j < 16:
        return x ^ y ^ z
    if j < 32:
        return (x & y) | ((x ^ M32) & z)
    if j < 48:
        return (x | (y ^ M32)) ^ z
    if j < 64:
        return (x & z) | (y & (z ^ M32))
    return x ^ (y | (z ^ M32))


K_L = [0x00000000, 0x5A827999, 0x6ED9EBA1, 0x8F1BBCDC, 0xA953FD4E]
K_R = [0x50A28BE6, 0x5C4DD124, 0x6D703EF3, 0x7A6D76E9, 0x00000000]
R_L = ([0, 1, 2, 3, 4, 5, 6, 7, 8, 9, 10, 11, 12, 13, 14, 15] + [7, 4, 13, 1, 10, 6, 15, 3, 12, 0, 9, 5, 2, 14, 11, 8] +
       [3, 10, 14, 4, 9, 15, 8, 1, 2, 7, 0, 6, 13, 11, 5, 12] + [1, 9, 11, 10, 0, 8, 12, 4, 13, 3, 7, 15, 14, 5, 6, 2] +
       [4, 0, 5, 9, 7, 12, 2, 10, 14, 1, 3, 8, 11, 6, 15, 13])
R_R = ([5, 14, 7, 0, 9, 2, 11, 4, 13, 6, 15, 8, 1, 10, 3, 12] + [6, 11, 3, 7, 0, 13, 5, 10, 14, 15, 8, 12, 4, 9, 1, 2] +
       [15, 5, 1, 3, 7, 14, 6, 9, 11, 8, 12, 2, 10, 0, 4, 13] + [8, 6, 4, 1, 3, 11, 15, 0, 5, 12, 2, 13, 9, 7, 10, 14] +
       [12, 15, 10, 4, 1, 5, 8, 7, 6, 2, 13, 14, 0, 3, 9, 11])
S_L = ([11, 14, 15, 12, 5, 8, 7, 9, 11, 13, 14, 15, 6, 7, 9, 8] + [7, 6, 8, 13, 11, 9, 7, 15, 7, 12, 15, 9, 11, 7, 13, 12] +
       [11, 13, 6, 7, 14, 9, 13, 15, 14, 8, 13, 6, 5, 12, 7, 5] + [11, 12, 14, 15, 14, 15, 9, 8, 9, 14, 5, 6, 8, 6, 5, 12] +
       [9, 15, 5, 11, 6, 8, 13, 12, 5, 12, 13, 14, 11, 8, 5, 6])
S_R = ([8, 9, 9, 11, 13, 15, 15, 5, 7, 7, 8, 11, 14, 14, 12, 6] + [9, 13, 15, 7, 12, 8, 9, 11, 7, 7, 12, 7, 6, 15, 13, 11] +
       [9, 7, 15, 11, 8, 6, 6, 14, 12, 13, 5, 14, 13, 13, 7, 5] + [15, 5, 8, 11, 14, 14, 6, 14, 6, 9, 12, 9, 12, 5, 15, 8] +
       [8, 5, 12, 9, 12, 5, 14, 6, 8, 13, 6, 5, 15, 13, 11, 11])


def compress(h, block):
    """h: 5 words, block: 64 byte items"""
    x = [block[4 * i] | (block[4 * i + 1] << 8) | (block[4 * i + 2] << 16) | (block[4 * i + 3] << 24) for i in range(16)]
    al, bl, cl, dl, el = h
    ar, br, cr, dr, er = h
    for j in range(80):
        t = (_rol((al + _f(j, bl, cl, dl) + x[R_L[j]] + K_L[j // 16]) & M32, S_L[j]) + el) & M32
        al, el, dl, cl, bl = el, dl, _rol(cl, 10), bl, t
        t = (_rol((ar + _f(79 - j, br, cr, dr) + x[R_R[j]] + K_R[j // 16]) & M32, S_R[j]) + er) & M32
        ar, er, dr, cr, br = er, dr, _rol(cr, 10), br, t
    t = (h[1] + cl + dr) & M32
    return [t, (h[2] + dl + er) & M32, (h[3] + el + ar) & M32, (h[4] + al + br) & M32, (h[0] + bl + cr) & M32]


def ripemd160(ctx, msg):
    n = len(msg)
    data = [msg[i] for i in range(n)] + [0x80] + [0] * ((55 - n) % 64) + list((8 * n).to_bytes(8, 'little'))
    h = [0x67452301, 0xEFCDAB89, 0x98BADCFE, 0x10325476, 0xC3D2E1F0]
    for off in range(0, len(data), 64):
        h = compress(h, data[off:off + 64])
    out = []
    for w in h:
        out += [w & 0xff, (w >> 8) & 0xff, (w >> 16) & 0xff, (w >> 24) & 0xff]
    return ctx.bytes_of(out)
