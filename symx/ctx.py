"""Harness contexts.

A harness is `def h(ctx, **params)`; it is run (a) symbolically by the explorer with the
shadow-loaded library (SymCtx) and (b) concretely against the plain import of /repo for replay
of counterexamples and validation of passing-path witnesses (ConcreteCtx, see /verif/replay.py,
which must not import z3).  Harness and reference code therefore only use this API plus plain
Python operators.
"""


class HarnessBug(Exception):
    pass


class _Base(object):
    symbolic = False

    def mod(self, name):
        return self.lib[name]

    # convenience accessors
    @property
    def core(self):
        return self.lib['bitcoin.core']

    @property
    def script(self):
        return self.lib['bitcoin.core.script']

    @property
    def serialize(self):
        return self.lib['bitcoin.core.serialize']

    @property
    def scripteval(self):
        return self.lib['bitcoin.core.scripteval']

    @property
    def bitcoin(self):
        return self.lib['bitcoin']

    def select_chain(self, name):
        self.lib['bitcoin'].SelectParams(name)


class ConcreteLib(object):
    def __init__(self):
        import importlib
        self._imp = importlib.import_module

    def __getitem__(self, name):
        return self._imp(name)


class ConcreteCtx(_Base):
    """Replays a harness on recorded inputs against the real import."""

    def __init__(self, inputs):
        self.inputs = inputs
        self.lib = ConcreteLib()
        self.failed = []
        self.passed = 0
        self.state = {}

    def _get(self, name):
        if name not in self.inputs:
            raise HarnessBug("replay input %r missing (harness took a different path)" % name)
        return self.inputs[name]

    def int(self, name, lo, hi, mode='bv'):
        v = self._get(name)
        if not lo <= v <= hi:
            raise HarnessBug("replay input %s=%r outside [%r,%r]" % (name, v, lo, hi))
        return v

    def bytes(self, name, n, mode='bv'):
        v = bytes.fromhex(self._get(name))
        assert len(v) == n
        return v

    def text(self, name, n, lo=0, hi=0x10ffff):
        v = self._get(name)
        return ''.join(chr(c) for c in v)

    def bool(self, name):
        return bool(self._get(name))

    def float(self, name):
        import struct
        return struct.unpack('>d', bytes.fromhex(self._get(name)))[0]

    def choice(self, name, k):
        return self._get(name)

    def assume(self, c):
        if not c:
            raise AssumeFailed()

    def check(self, c, label, detail=None):
        if c:
            self.passed += 1
            return True
        self.failed.append(label)
        return False

    def fail(self, label, detail=None):
        self.failed.append(label)

    # logic helpers
    def and_(self, *xs):
        return all(xs)

    def or_(self, *xs):
        return any(xs)

    def not_(self, x):
        return not x

    def implies(self, a, b):
        return (not a) or bool(b)

    def ite(self, c, a, b):
        return a if c else b

    def iff(self, a, b):
        return bool(a) == bool(b)

    def ite_bool(self, c, a, b):
        return bool(a) if c else bool(b)

    def B(self, b):
        return bytes(b)

    def bytes_of(self, items):
        return bytes(items)

    def is_true(self, c):
        """fork-free in concrete mode"""
        return bool(c)

    def concrete(self, v):
        return v

    def set_state(self, k, v):
        self.state[k] = v

    def preimage(self, digest):
        return None

    def register_digits(self, value, base, digits_le):
        pass

    def to_str(self, obj):
        return str(obj)

    def hash(self, obj):
        return hash(obj)

    def hexstr(self, b):
        return bytes(b).hex()

    def float_within_half_unit(self, x, a, scale):
        """|x - a/scale| < 0.5/scale, decided exactly with rationals"""
        from fractions import Fraction
        return abs(Fraction(float(x)) - Fraction(a, scale)) < Fraction(1, 2 * scale)

    def float_eq(self, x, y):
        return float(x) == float(y)

    def float_div(self, a, b):
        return float(a) / b

    def b64encode(self, b):
        import base64
        return base64.b64encode(bytes(b))

    def b64decode(self, b):
        import base64
        return base64.b64decode(bytes(b))

    def ord1(self, ch):
        return ord(ch)

    def chr1(self, c):
        return chr(c)

    def lower_cp(self, c):
        return c + 32 if 65 <= c <= 90 else c

    def ip_text(self, v4, packed):
        import socket
        return socket.inet_ntop(socket.AF_INET if v4 else socket.AF_INET6, bytes(packed))

    def text_of(self, cps):
        return ''.join(chr(c) for c in cps)

    def str_index(self, table, ch):
        return table.find(ch)

    def str_from_table(self, table, idxs):
        return ''.join(table[i] for i in idxs)

    def str_concat(self, *parts):
        return ''.join(parts)

    def sha256(self, b):
        import hashlib
        return hashlib.sha256(bytes(b)).digest()

    def sha1(self, b):
        import hashlib
        return hashlib.sha1(bytes(b)).digest()

    def dsha256(self, b):
        return self.sha256(self.sha256(b))

    def ripemd160(self, b):
        return self.lib['bitcoin.core.contrib.ripemd160'].ripemd160(bytes(b))

    def hash160(self, b):
        return self.ripemd160(self.sha256(b))

    def V(self, pubkey, h, sig):
        key = self.lib['bitcoin.core.key'].CECKey()
        key.set_pubkey(bytes(pubkey))
        return key.verify(bytes(h), bytes(sig))


class AssumeFailed(Exception):
    pass


def make_symctx_class():
    """built lazily so that replay.py can import this module without z3"""
    from . import core, vtypes, keystub
    import z3

    class SymCtx(_Base):
        symbolic = True

        def __init__(self, ex, lib):
            self.ex = ex
            self.lib = lib

        def int(self, name, lo, hi, mode='bv'):
            if lo == hi:
                self.ex.inputs[name] = ('int', lo)
                return lo
            if mode == 'lia':
                v = z3.Int(name)
                self.ex.add(z3.And(v >= lo, v <= hi))
                s = core.SymInt(v, lo, hi, None)
            elif lo >= 0:
                w = core.need_u(hi)
                v = z3.BitVec(name, w)
                if lo > 0 or hi != (1 << w) - 1:
                    self.ex.add(z3.And(z3.UGE(v, z3.BitVecVal(lo, w)), z3.ULE(v, z3.BitVecVal(hi, w))))
                s = core.SymInt(v, lo, hi, False, lin=core.gf2_var(name, w) if w <= 64 else None)
            else:
                w = core.need_s(lo, hi)
                v = z3.BitVec(name, w)
                if lo != -(1 << (w - 1)) or hi != (1 << (w - 1)) - 1:
                    self.ex.add(z3.And(v >= z3.BitVecVal(lo, w), v <= z3.BitVecVal(hi, w)))
                s = core.SymInt(v, lo, hi, True)
            self.ex.model = None
            self.ex.inputs[name] = ('int', s)
            return s

        def bytes(self, name, n, mode='bv'):
            items = []
            for i in range(n):
                nm = '%s_%d' % (name, i)
                if mode == 'lia':
                    v = z3.Int(nm)
                    self.ex.add(z3.And(v >= 0, v <= 255))
                    items.append(core.SymInt(v, 0, 255, None))
                else:
                    items.append(core.SymInt(z3.BitVec(nm, 8), 0, 255, False, lin=core.gf2_var(nm, 8)))
            if mode == 'lia':
                self.ex.model = None
            self.ex.inputs[name] = ('bytes', items)
            return vtypes.VBytes._mk(list(items))

        def text(self, name, n, lo=0, hi=0x10ffff):
            items = []
            w = core.need_u(hi)
            for i in range(n):
                v = z3.BitVec('%s_%d' % (name, i), w)
                if lo > 0 or hi != (1 << w) - 1:
                    self.ex.add(z3.And(z3.UGE(v, z3.BitVecVal(lo, w)), z3.ULE(v, z3.BitVecVal(hi, w))))
                items.append(core.SymInt(v, lo, hi, False, lin=core.gf2_var('%s_%d' % (name, i), w)))
            self.ex.model = None
            self.ex.inputs[name] = ('str', items)
            return vtypes.VStr._mk(list(items))

        def float(self, name):
            from . import symfloat
            v = z3.FP(name, symfloat.F64)
            f = symfloat.SymFloat(v)
            self.ex.inputs[name] = ('float', f)
            return f

        def bool(self, name):
            b = core.SymBool(z3.Bool(name))
            self.ex.inputs[name] = ('bool', b)
            return b

        def choice(self, name, k):
            s = self.int(name, 0, k - 1)
            return self.ex.concretize(s)

        def assume(self, c):
            self.ex.assume(c)

        def check(self, c, label, detail=None):
            if c is NotImplemented:
                raise core.EngineLeak("check() on NotImplemented (%s)" % label)
            return self.ex.check(c, label, detail)

        def fail(self, label, detail=None):
            self.ex.fail(label, detail)

        def and_(self, *xs):
            return core.s_and(*xs)

        def or_(self, *xs):
            return core.s_or(*xs)

        def not_(self, x):
            return core.s_not(x)

        def implies(self, a, b):
            return core.s_implies(a, b)

        def iff(self, a, b):
            return core.mkbool(core.bexpr(a) == core.bexpr(b))

        def ite_bool(self, c, a, b):
            return core.mkbool(z3.If(core.bexpr(c), core.bexpr(a), core.bexpr(b)))

        def ite(self, c, a, b):
            if isinstance(c, (core.SymBool, core.SymInt)) and isinstance(a, (vtypes.VBytes, bytes)):
                ad, bd = vtypes._items(a), vtypes._items(b)
                if len(ad) != len(bd):
                    raise core.EngineLeak("ctx.ite on byte strings of different length")
                return vtypes.VBytes._mk([core.s_ite(c, x, y) for x, y in zip(ad, bd)])
            return core.s_ite(c, a, b)

        def B(self, b):
            return vtypes.VBytes(b)

        def bytes_of(self, items):
            return vtypes.VBytes(items)

        def is_true(self, c):
            """fork on a symbolic condition, returning a concrete bool"""
            if isinstance(c, (core.SymBool, core.SymInt)):
                return self.ex.branch(core.bexpr(c))
            return bool(c)

        def concrete(self, v):
            return self.ex.concretize(v)

        def set_state(self, k, v):
            self.ex.path_state[k] = v

        def preimage(self, digest):
            p = getattr(digest, 'preimage', None)
            return None if p is None else p[1]

        def register_digits(self, value, base, digits_le):
            core.register_repr(value, base, digits_le)

        def to_str(self, obj):
            r = type(obj).__str__(obj)
            return r

        def hash(self, obj):
            """the library object's own __hash__ result (a hash token comparing like the hashed bytes)"""
            return type(obj).__hash__(obj)

        def hexstr(self, b):
            from . import stubs
            return stubs.hexlify_v(vtypes.VBytes(b)).decode('ascii')

        def float_within_half_unit(self, x, a, scale):
            """|x - a/scale| < 0.5/scale  <=>  (2a-1)/(2 scale) < x < (2a+1)/(2 scale): exact real comparison of a double with rationals"""
            from . import symfloat
            xe = symfloat.SymFloat.lift(x)
            # a < 2^53: its double is exact, so fpToReal(double(a)) is a itself (keeps the query inside FP + reals)
            ar = z3.fpToReal(symfloat.SymFloat.lift(a)) if isinstance(a, core.SymInt) else z3.RealVal(a)
            xr = z3.fpToReal(xe)
            return core.mkbool(z3.And(z3.Not(z3.fpIsNaN(xe)), z3.Not(z3.fpIsInf(xe)), xr * (2 * scale) > 2 * ar - 1, xr * (2 * scale) < 2 * ar + 1))

        def float_eq(self, x, y):
            from . import symfloat
            ex, ey = symfloat.SymFloat.lift(x), symfloat.SymFloat.lift(y)
            if ex.eq(ey):
                return True
            return core.mkbool(z3.fpEQ(ex, ey))

        def float_div(self, a, b):
            from . import symfloat
            return symfloat.SymFloat(z3.fpDiv(symfloat.RNE, symfloat.SymFloat.lift(a), symfloat.SymFloat.lift(b)))

        def b64encode(self, b):
            from . import stubs
            return stubs.b64encode_v(vtypes.VBytes(b))

        def b64decode(self, b):
            from . import stubs
            return stubs.b64decode_v(b)

        def ord1(self, ch):
            if isinstance(ch, vtypes.VStr):
                return ch._d[0]
            return ord(ch)

        def chr1(self, c):
            if isinstance(c, core.SymInt):
                return vtypes.VStr._mk([c])
            return chr(c)

        def lower_cp(self, c):
            return vtypes._lower(c)

        def ip_text(self, v4, packed):
            from . import stubs
            import socket
            return stubs.make_socket().inet_ntop(socket.AF_INET if v4 else socket.AF_INET6, vtypes.VBytes(packed))

        def text_of(self, cps):
            return vtypes.VStr._mk(list(cps))

        def str_index(self, table, ch):
            return vtypes.VStr(table).find(ch)

        def str_from_table(self, table, idxs):
            out = []
            for i in idxs:
                if isinstance(i, core.SymInt):
                    c = vtypes._select([ord(x) for x in table], i)
                    if isinstance(c, core.SymInt):
                        c.tag = ('tbl', table, i)
                    out.append(c)
                else:
                    out.append(ord(table[i]))
            return vtypes.VStr._mk(out)

        def str_concat(self, *parts):
            r = vtypes.VStr('')
            for p in parts:
                r = r + p
            return r

        def sha256(self, b):
            from . import stubs
            return stubs.hash_apply('sha256', vtypes.VBytes(b))

        def sha1(self, b):
            from . import stubs
            return stubs.hash_apply('sha1', vtypes.VBytes(b))

        def dsha256(self, b):
            return self.sha256(self.sha256(b))

        def ripemd160(self, b):
            from . import stubs
            return stubs.hash_apply('ripemd160', vtypes.VBytes(b))

        def hash160(self, b):
            return self.ripemd160(self.sha256(b))

        def V(self, pubkey, h, sig):
            return keystub.V(pubkey, h, sig)

        _ufs = {}

        def uf(self, name, out_bits, *args):
            """uninterpreted function application; args are (int-like, width) pairs or byte strings"""
            parts = []
            for a in args:
                if isinstance(a, tuple):
                    v, w = a
                    parts.append(v.tw(w) if isinstance(v, core.SymInt) else z3.BitVecVal(v, w))
                else:
                    for x in vtypes._items(a):
                        parts.append(x.tw(8) if isinstance(x, core.SymInt) else z3.BitVecVal(x, 8))
            sig = (name, out_bits, tuple(p.size() for p in parts))
            f = SymCtx._ufs.get(sig)
            if f is None:
                f = z3.Function('%s_%d' % (name, len(SymCtx._ufs)), *([z3.BitVecSort(p.size()) for p in parts] + [z3.BitVecSort(out_bits)]))
                SymCtx._ufs[sig] = f
            return core.SymInt.from_bv(f(*parts), 0, (1 << out_bits) - 1, False)

    return SymCtx
