"""IEEE-754 double (z3 FP) and exact decimal proxies used by the C19 / C20 harnesses only."""
import z3
from .core import SymInt, SymBool, EngineLeak, cur, mkbool, bexpr, s_ite

_rfloat = float
RNE = z3.RNE()
F64 = z3.Float64()


class SymFloat(object):
    __slots__ = ('e',)

    def __init__(self, e):
        self.e = e

    @staticmethod
    def lift(x):
        if isinstance(x, SymFloat):
            return x.e
        if isinstance(x, SymInt):
            if x.lia:
                return z3.fpToFP(RNE, z3.ToReal(x.e), F64)
            if x.signed:
                return z3.fpSignedToFP(RNE, x.e, F64)
            return z3.fpUnsignedToFP(RNE, x.e, F64)
        if isinstance(x, bool):
            x = int(x)
        if isinstance(x, int):
            return z3.FPVal(_rfloat(x), F64) if _rfloat(x) == x else z3.fpToFP(RNE, z3.RealVal(x), F64)
        if isinstance(x, _rfloat):
            return z3.FPVal(x, F64)
        return None

    def _bin(self, o, f, rev=False):
        oe = SymFloat.lift(o)
        if oe is None:
            return NotImplemented
        a, b = (oe, self.e) if rev else (self.e, oe)
        return SymFloat(f(a, b))

    def __add__(self, o): return self._bin(o, lambda a, b: z3.fpAdd(RNE, a, b))
    def __radd__(self, o): return self._bin(o, lambda a, b: z3.fpAdd(RNE, a, b), True)
    def __sub__(self, o): return self._bin(o, lambda a, b: z3.fpSub(RNE, a, b))
    def __rsub__(self, o): return self._bin(o, lambda a, b: z3.fpSub(RNE, a, b), True)
    def __mul__(self, o): return self._bin(o, lambda a, b: z3.fpMul(RNE, a, b))
    def __rmul__(self, o): return self._bin(o, lambda a, b: z3.fpMul(RNE, a, b), True)
    def __truediv__(self, o): return self._bin(o, lambda a, b: z3.fpDiv(RNE, a, b))
    def __rtruediv__(self, o): return self._bin(o, lambda a, b: z3.fpDiv(RNE, a, b), True)
    def __neg__(self): return SymFloat(z3.fpNeg(self.e))

    def _cmp(self, o, f):
        oe = SymFloat.lift(o)
        if oe is None:
            return NotImplemented
        return mkbool(f(self.e, oe))

    def __lt__(self, o): return self._cmp(o, z3.fpLT)
    def __le__(self, o): return self._cmp(o, z3.fpLEQ)
    def __gt__(self, o): return self._cmp(o, z3.fpGT)
    def __ge__(self, o): return self._cmp(o, z3.fpGEQ)
    def __eq__(self, o): return self._cmp(o, z3.fpEQ)
    def __ne__(self, o): return self._cmp(o, lambda a, b: z3.Not(z3.fpEQ(a, b)))
    __hash__ = None

    def to_int(self, bits=80):
        """int(float): truncation toward zero (assumes |x| < 2^(bits-1); caller states the bound)"""
        bv = z3.fpToSBV(z3.RTZ(), self.e, z3.BitVecSort(bits))
        return SymInt(bv, -(1 << (bits - 1)), (1 << (bits - 1)) - 1, True)

    def __float__(self):
        raise EngineLeak("float() realisation of a symbolic float")

    def __repr__(self):
        return 'SymFloat(%s)' % (str(self.e)[:60],)


class SymDecimal(object):
    """exact rational  num / den  (decimal.Decimal as parsed from JSON text; Decimal arithmetic is exact for the
    products the library forms, so it is modelled algebraically)"""
    __slots__ = ('num', 'den')

    def __init__(self, num, scale):
        self.num = num
        self.den = 10 ** scale

    def __mul__(self, o):
        if isinstance(o, (int, SymInt)):
            r = SymDecimal(self.num, 0)
            if isinstance(o, int) and not isinstance(o, bool):
                import math
                g = math.gcd(o, self.den)
                r.num = self.num * (o // g)
                r.den = self.den // g
            else:
                r.num = self.num * o
                r.den = self.den
            return r
        return NotImplemented
    __rmul__ = __mul__

    def to_int(self):
        # int(Decimal) truncates toward zero
        d = self.den
        n = self.num
        if d == 1:
            return n
        q = n // d
        if isinstance(n, SymInt) or isinstance(q, SymInt):
            neg_adj = s_ite((n < 0) & ((n % d) != 0), 1, 0)
            return q + neg_adj
        return q + (1 if (n < 0 and n % d) else 0)

    def __repr__(self):
        return 'SymDecimal(%r/%d)' % (self.num, self.den)


def truediv(a, b):
    ea, eb = SymFloat.lift(a), SymFloat.lift(b)
    if ea is None or eb is None:
        return NotImplemented
    return SymFloat(z3.fpDiv(RNE, ea, eb))


def to_float(x):
    if isinstance(x, SymFloat):
        return x
    if isinstance(x, (SymInt, SymBool)):
        if isinstance(x, SymBool):
            x = x.as_int()
        return SymFloat(SymFloat.lift(x))
    if isinstance(x, SymDecimal):
        raise EngineLeak("float(SymDecimal)")
    return _rfloat(x)


def fmin(*a):
    r = a[0]
    for x in a[1:]:
        c = x < r
        if isinstance(c, bool):
            r = x if c else r
        else:
            r = SymFloat(z3.If(c.e, SymFloat.lift(x), SymFloat.lift(r)))
    return r
