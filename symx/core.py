"""symx core: symbolic ints/bools over z3 and the path explorer.

Runs under python3-vt (z3 available).  Nothing here imports the library under test.
"""
import os
import sys
import time
import z3

# ------------------------------------------------------------------------------------------
# exceptions


class EngineLeak(Exception):
    """An operation the proxies do not model was attempted on a symbolic value."""


class PathAbort(BaseException):
    """Current path is infeasible / assumption failed (not an error)."""


class Inconclusive(BaseException):
    """Budget exhausted or solver returned unknown."""


class HarnessViolation(BaseException):
    """Raised internally to stop a path after a confirmed counterexample candidate."""


_cur = None  # the active Explorer


def cur():
    if _cur is None:
        raise EngineLeak("symbolic operation outside an exploration")
    return _cur


# ------------------------------------------------------------------------------------------
# helpers on python ints


def need_s(lo, hi):
    """min signed width holding every value in [lo,hi]"""
    w = 1
    for v in (lo, hi):
        n = (v.bit_length() if v >= 0 else (~v).bit_length()) + 1
        if n > w:
            w = n
    return w


def need_u(hi):
    return max(1, hi.bit_length())


_real_int = int
_real_bool = bool


def is_sym(x):
    return isinstance(x, (SymInt, SymBool))


# ------------------------------------------------------------------------------------------
# SymBool


class SymBool(object):
    __slots__ = ('e', 'lin')

    def __init__(self, e, lin=None):
        self.e = e
        self.lin = lin

    def __bool__(self):
        return cur().branch(self.e)

    def _o(self, o):
        if isinstance(o, SymBool):
            return o.e
        if isinstance(o, bool):
            return z3.BoolVal(o)
        if isinstance(o, SymInt):
            return o._nz()
        if isinstance(o, int):
            return z3.BoolVal(o != 0)
        return None

    def __and__(self, o):
        oe = self._o(o)
        if oe is None:
            return NotImplemented
        return mkbool(z3.And(self.e, oe))
    __rand__ = __and__

    def __or__(self, o):
        oe = self._o(o)
        if oe is None:
            return NotImplemented
        return mkbool(z3.Or(self.e, oe))
    __ror__ = __or__

    def __xor__(self, o):
        oe = self._o(o)
        if oe is None:
            return NotImplemented
        return mkbool(z3.Xor(self.e, oe))
    __rxor__ = __xor__

    def __invert__(self):
        # only used by harness/ref code as logical not (never by the library on bools)
        return mkbool(z3.Not(self.e))

    def __eq__(self, o):
        oe = self._o(o)
        if oe is None:
            return False
        return mkbool(self.e == oe)

    def __ne__(self, o):
        oe = self._o(o)
        if oe is None:
            return True
        return mkbool(self.e != oe)

    def __hash__(self):
        raise EngineLeak("hash() of a symbolic bool")

    def __index__(self):
        return 1 if cur().branch(self.e) else 0

    def as_int(self):
        return SymInt(z3.If(self.e, z3.BitVecVal(1, 1), z3.BitVecVal(0, 1)), 0, 1, False)

    def __add__(self, o):
        return self.as_int() + o
    __radd__ = __add__

    def __repr__(self):
        return 'SymBool(%s)' % (self.e,)


_K_TRUE, _K_FALSE, _K_EQ, _K_DISTINCT, _K_AND, _K_OR, _K_NOT = (z3.Z3_OP_TRUE, z3.Z3_OP_FALSE, z3.Z3_OP_EQ, z3.Z3_OP_DISTINCT,
                                                                  z3.Z3_OP_AND, z3.Z3_OP_OR, z3.Z3_OP_NOT)


def _kind(e):
    """decl kind of an application (one C call instead of one per z3.is_* predicate)"""
    try:
        return z3.Z3_get_decl_kind(e.ctx_ref(), z3.Z3_get_app_decl(e.ctx_ref(), e.as_ast()))
    except Exception:
        return -1


def mkbool(e):
    """z3 Bool -> python bool if trivially constant else SymBool.  Only cheap structural checks here: a full
    z3.simplify of every comparison dominated run time on large terms (the solver simplifies anyway)."""
    k = _kind(e)
    if k == _K_TRUE:
        return True
    if k == _K_FALSE:
        return False
    if k == _K_EQ or (k == _K_DISTINCT and e.num_args() == 2):
        a, b = e.arg(0), e.arg(1)
        if a.eq(b):
            return k == _K_EQ
        if (z3.is_bv_value(a) and z3.is_bv_value(b)) or (z3.is_int_value(a) and z3.is_int_value(b)):
            return (a.as_long() == b.as_long()) == (k == _K_EQ)
    elif k == _K_AND or k == _K_OR:
        kids = e.children()
        isand = k == _K_AND
        keep = []
        for c in kids:
            kc = _kind(c)
            if kc == _K_TRUE:
                if not isand:
                    return True
            elif kc == _K_FALSE:
                if isand:
                    return False
            else:
                keep.append(c)
        if not keep:
            return isand
        if len(keep) != len(kids):
            e = keep[0] if len(keep) == 1 else (z3.And(*keep) if isand else z3.Or(*keep))
    elif k == _K_NOT:
        kc = _kind(e.arg(0))
        if kc == _K_TRUE:
            return False
        if kc == _K_FALSE:
            return True
    return SymBool(e)


def bexpr(x):
    """anything truthy-symbolic -> z3 Bool"""
    if isinstance(x, SymBool):
        return x.e
    if isinstance(x, SymInt):
        return x._nz()
    return z3.BoolVal(_real_bool(x))


def s_and(*xs):
    return mkbool(z3.And(*[bexpr(x) for x in xs]))


def s_or(*xs):
    return mkbool(z3.Or(*[bexpr(x) for x in xs]))


def s_not(x):
    if isinstance(x, (SymBool, SymInt)):
        return mkbool(z3.Not(bexpr(x)))
    return not x


def s_implies(a, b):
    return mkbool(z3.Implies(bexpr(a), bexpr(b)))


def s_ite(c, a, b):
    """value-level if-then-else for ints / bools (merging, no fork)"""
    if not isinstance(c, (SymBool, SymInt)):
        return a if c else b
    ce = bexpr(c)
    if isinstance(a, (bool, SymBool)) and isinstance(b, (bool, SymBool)):
        return mkbool(z3.If(ce, bexpr(a), bexpr(b)))
    if isinstance(a, (int, SymInt, SymBool)) and isinstance(b, (int, SymInt, SymBool)):
        a = a.as_int() if isinstance(a, SymBool) else a
        b = b.as_int() if isinstance(b, SymBool) else b
        r = SymInt._ite(ce, a, b)
        cf = c.lin if isinstance(c, SymBool) else (c.lin[0] if (c.lin is not None and c.hi is not None and c.hi <= 1) else None)
        if cf is not None and isinstance(r, SymInt) and not r.lia and type(a) is int and type(b) is int and a >= 0 and b >= 0:
            # bit j = b_j XOR cond*(a_j XOR b_j)
            out = []
            for j in range(max(1, a.bit_length(), b.bit_length())):
                aj, bj = (a >> j) & 1, (b >> j) & 1
                out.append((bj, frozenset()) if aj == bj else (bj ^ cf[0], cf[1]))
            r.lin = out
        return r
    raise EngineLeak("s_ite on non-int values %r %r" % (type(a), type(b)))


# ------------------------------------------------------------------------------------------
# SymInt


class SymInt(object):
    """Python-int semantics over z3.

    BV mode:  e is a BitVec; if signed is False the value is the unsigned reading of e
              (and lo >= 0), else the two's complement reading.  [lo,hi] is a sound interval.
    LIA mode: e is a z3 Int term; lo/hi may be None (unknown).
    """
    __slots__ = ('e', 'lo', 'hi', 'signed', 'tag', 'lin')

    def __init__(self, e, lo, hi, signed, tag=None, lin=None):
        self.e = e
        self.lo = lo
        self.hi = hi
        self.signed = signed
        self.tag = tag
        self.lin = lin      # optional GF(2)-affine normal form, see gf2_* below

    # -- construction helpers ---------------------------------------------------------
    @property
    def lia(self):
        return self.signed is None

    @staticmethod
    def from_bv(e, lo, hi, w_is_twos):
        """e: BitVec in two's complement holding a value known to be in [lo,hi]; normalise."""
        if lo == hi:
            return lo
        if lo >= 0:
            w = need_u(hi)
            if e.size() > w:
                e = z3.Extract(w - 1, 0, e)
            elif e.size() < w:
                e = z3.ZeroExt(w - e.size(), e) if not w_is_twos else z3.SignExt(w - e.size(), e)
            return SymInt(e, lo, hi, False)
        w = need_s(lo, hi)
        if e.size() > w:
            e = z3.Extract(w - 1, 0, e)
        elif e.size() < w:
            e = z3.SignExt(w - e.size(), e)
        return SymInt(e, lo, hi, True)

    def tw(self, w):
        """two's complement BitVec of width w (low w bits of the value)"""
        e = self.e
        n = e.size()
        if n == w:
            return e
        if n > w:
            return z3.Extract(w - 1, 0, e)
        return z3.SignExt(w - n, e) if self.signed else z3.ZeroExt(w - n, e)

    def sw(self):
        """signed width needed for this value"""
        return need_s(self.lo, self.hi)

    def as_lia(self):
        if self.lia:
            return self.e
        return z3.BV2Int(self.e, is_signed=bool(self.signed))

    @staticmethod
    def _ite(ce, a, b):
        la = a.lia if isinstance(a, SymInt) else False
        lb = b.lia if isinstance(b, SymInt) else False
        if la or lb:
            ea = a.as_lia() if isinstance(a, SymInt) else z3.IntVal(a)
            eb = b.as_lia() if isinstance(b, SymInt) else z3.IntVal(b)
            lo = _minn(_lo(a), _lo(b))
            hi = _maxn(_hi(a), _hi(b))
            return SymInt(z3.If(ce, ea, eb), lo, hi, None)
        lo = min(_lo(a), _lo(b))
        hi = max(_hi(a), _hi(b))
        w = need_s(lo, hi)
        return SymInt.from_bv(z3.If(ce, _tw(a, w), _tw(b, w)), lo, hi, True)

    # -- conversions ------------------------------------------------------------------
    def _nz(self):
        if self.lia:
            return self.e != 0
        return self.e != z3.BitVecVal(0, self.e.size())

    def __bool__(self):
        return cur().branch(self._nz())

    def __index__(self):
        return cur().concretize(self)

    __int__ = __index__

    def __hash__(self):
        raise EngineLeak("hash() of a symbolic int")

    def __repr__(self):
        return 'SymInt(%s,[%s,%s])' % (str(self.e)[:60], self.lo, self.hi)

    # -- arithmetic -------------------------------------------------------------------
    def _coerce(self, o):
        if isinstance(o, SymInt):
            return o
        if isinstance(o, float) or type(o).__name__ == 'SymFloat':
            raise _FloatOperand()
        if isinstance(o, SymBool):
            return o.as_int()
        if isinstance(o, bool):
            return _real_int(o)
        if isinstance(o, int):
            return _real_int(o)
        return None

    def __add__(self, o):
        o = self._coerce(o)
        if o is None:
            return NotImplemented
        return _arith('+', self, o)
    __radd__ = __add__

    def __sub__(self, o):
        o = self._coerce(o)
        if o is None:
            return NotImplemented
        return _arith('-', self, o)

    def __rsub__(self, o):
        o = self._coerce(o)
        if o is None:
            return NotImplemented
        return _arith('-', o, self)

    def __mul__(self, o):
        o2 = self._coerce(o)
        if o2 is None:
            # sequence repetition: b'\x00' * sym  -> needs a concrete count
            if hasattr(o, '__len__'):
                return o * cur().concretize(self)
            return NotImplemented
        return _arith('*', self, o2)

    def __rmul__(self, o):
        return self.__mul__(o)

    def __neg__(self):
        return _arith('-', 0, self)

    def __pos__(self):
        return self

    def __abs__(self):
        if self.lo is not None and self.lo >= 0:
            return self
        if self.hi is not None and self.hi <= 0:
            return -self
        r = s_ite(self < 0, -self, self)
        if isinstance(r, SymInt) and self.lo is not None and self.hi is not None:
            r.lo = 0
            r.hi = max(-self.lo, self.hi)
        return r

    def __invert__(self):
        return _arith('-', _arith('-', 0, self), 1)

    def __floordiv__(self, o):
        o = self._coerce(o)
        if o is None:
            return NotImplemented
        return _divmod(self, o)[0]

    def __rfloordiv__(self, o):
        o = self._coerce(o)
        if o is None:
            return NotImplemented
        return _divmod(o, self)[0]

    def __mod__(self, o):
        o = self._coerce(o)
        if o is None:
            return NotImplemented
        return _divmod(self, o)[1]

    def __rmod__(self, o):
        if isinstance(o, str):
            from . import vtypes
            return vtypes.fmt(o, self)
        o = self._coerce(o)
        if o is None:
            return NotImplemented
        return _divmod(o, self)[1]

    def __divmod__(self, o):
        o = self._coerce(o)
        if o is None:
            return NotImplemented
        return _divmod(self, o)

    def __rdivmod__(self, o):
        o = self._coerce(o)
        if o is None:
            return NotImplemented
        return _divmod(o, self)

    def __truediv__(self, o):
        from . import symfloat
        return symfloat.truediv(self, o)

    def __rtruediv__(self, o):
        from . import symfloat
        return symfloat.truediv(o, self)

    def __lshift__(self, o):
        o = self._coerce(o)
        if o is None:
            return NotImplemented
        return _shift('<<', self, o)

    def __rlshift__(self, o):
        o = self._coerce(o)
        if o is None:
            return NotImplemented
        return _shift('<<', o, self)

    def __rshift__(self, o):
        o = self._coerce(o)
        if o is None:
            return NotImplemented
        return _shift('>>', self, o)

    def __rrshift__(self, o):
        o = self._coerce(o)
        if o is None:
            return NotImplemented
        return _shift('>>', o, self)

    def __and__(self, o):
        o = self._coerce(o)
        if o is None:
            return NotImplemented
        return _bitop('&', self, o)
    __rand__ = __and__

    def __or__(self, o):
        o = self._coerce(o)
        if o is None:
            return NotImplemented
        return _bitop('|', self, o)
    __ror__ = __or__

    def __xor__(self, o):
        o = self._coerce(o)
        if o is None:
            return NotImplemented
        return _bitop('^', self, o)
    __rxor__ = __xor__

    def __pow__(self, o):
        if isinstance(o, int) and 0 <= o <= 4:
            r = 1
            for _ in range(o):
                r = r * self
            return r
        raise EngineLeak("pow on symbolic int")

    # -- comparisons ------------------------------------------------------------------
    def __eq__(self, o):
        o = self._coerce(o)
        if o is None:
            return False
        return _cmp('==', self, o)

    def __ne__(self, o):
        o = self._coerce(o)
        if o is None:
            return True
        return _cmp('!=', self, o)

    def __lt__(self, o):
        o = self._coerce(o)
        if o is None:
            return NotImplemented
        return _cmp('<', self, o)

    def __le__(self, o):
        o = self._coerce(o)
        if o is None:
            return NotImplemented
        return _cmp('<=', self, o)

    def __gt__(self, o):
        o = self._coerce(o)
        if o is None:
            return NotImplemented
        return _cmp('<', o, self)

    def __ge__(self, o):
        o = self._coerce(o)
        if o is None:
            return NotImplemented
        return _cmp('<=', o, self)

    # -- int methods ------------------------------------------------------------------
    def bit_length(self):
        a = abs(self)
        if not isinstance(a, SymInt):
            return a.bit_length()
        if a.hi is None:
            raise EngineLeak("bit_length of unbounded LIA int")
        r = 0
        for k in range(1, a.hi.bit_length() + 1):
            r = s_ite(a >= (1 << (k - 1)), k, r)
        return r

    def to_bytes(self, length, byteorder='big', *, signed=False):
        from . import vtypes
        if signed:
            raise EngineLeak("to_bytes(signed=True)")
        fits = s_and(self >= 0, self < (1 << (8 * length)))
        if not (fits if isinstance(fits, bool) else cur().branch(fits.e)):
            raise OverflowError("int too big to convert")
        items = []
        if self.lia:
            items = lia_digits(self, 256, length) if length else []
        else:
            e = self.tw(8 * length) if length else None
            for i in range(length):
                items.append(SymInt.from_bv(z3.Extract(8 * i + 7, 8 * i, e), 0, 255, False))
        if byteorder == 'big':
            items.reverse()
        return vtypes.VBytes(items)


class SymIntSub(SymInt):
    """symbolic instance of an int subclass of the library (e.g. CScriptOp): int behaviour from SymInt,
    methods looked up on the library class"""
    __slots__ = ('_cls',)

    def __getattr__(self, name):
        import types
        cls = object.__getattribute__(self, '_cls')
        for k in cls.__mro__:
            if k is int or k is object:
                continue
            if name in k.__dict__:
                f = k.__dict__[name]
                if isinstance(f, types.FunctionType):
                    return types.MethodType(f, self)
                if isinstance(f, staticmethod):
                    return f.__func__
                if isinstance(f, classmethod):
                    return types.MethodType(f.__func__, cls)
        raise AttributeError("'%s' object has no attribute '%s'" % (cls.__name__, name))

    @staticmethod
    def wrap(x, cls):
        r = SymIntSub(x.e, x.lo, x.hi, x.signed, x.tag)
        r._cls = cls
        return r


class _FloatOperand(Exception):
    pass


def _floatop(fn):
    import functools
    import math

    @functools.wraps(fn)
    def w(self, o):
        name = fn.__name__
        if isinstance(o, float) and math.isfinite(o) and name in ('__lt__', '__le__', '__gt__', '__ge__', '__eq__', '__ne__'):
            # exact integer reformulation of int-vs-float comparisons
            fl, ce = math.floor(o), math.ceil(o)
            if name == '__lt__':
                return fn(self, ce)
            if name == '__le__':
                return _cmp('<=', self, fl)
            if name == '__gt__':
                return _cmp('<', fl, self)
            if name == '__ge__':
                return _cmp('<=', ce, self)
            if name == '__eq__':
                return fn(self, fl) if fl == ce else False
            return fn(self, fl) if fl == ce else True
        try:
            return fn(self, o)
        except _FloatOperand:
            from . import symfloat
            a = symfloat.to_float(self)
            name = fn.__name__
            return getattr(a, name)(o)
    return w


for _n in ('__add__', '__radd__', '__sub__', '__rsub__', '__mul__', '__rmul__', '__lt__', '__le__', '__gt__', '__ge__',
           '__eq__', '__ne__'):
    setattr(SymInt, _n, _floatop(getattr(SymInt, _n)))


def _lo(a):
    return a.lo if isinstance(a, SymInt) else a


def _hi(a):
    return a.hi if isinstance(a, SymInt) else a


def _minn(a, b):
    return None if a is None or b is None else min(a, b)


def _maxn(a, b):
    return None if a is None or b is None else max(a, b)


_bvv_cache = {}


def _bvv(v, w):
    k = (v, w)
    r = _bvv_cache.get(k)
    if r is None:
        if len(_bvv_cache) > 20000:
            _bvv_cache.clear()
        r = _bvv_cache[k] = z3.BitVecVal(v, w)
    return r


def _tw(a, w):
    if isinstance(a, SymInt):
        return a.tw(w)
    return _bvv(a, w)


def _lia(a):
    if isinstance(a, SymInt):
        return a.as_lia()
    return z3.IntVal(a)


def _is_lia(a, b):
    return (isinstance(a, SymInt) and a.lia) or (isinstance(b, SymInt) and b.lia)


def _arith(op, a, b):
    if not isinstance(a, SymInt) and not isinstance(b, SymInt):
        return {'+': a + b, '-': a - b, '*': a * b}[op]
    if _is_lia(a, b):
        al, ah, bl, bh = _lo(a), _hi(a), _lo(b), _hi(b)
        ea, eb = _lia(a), _lia(b)
        if op == '+':
            return SymInt(ea + eb, _addn(al, bl), _addn(ah, bh), None)
        if op == '-':
            return SymInt(ea - eb, _subn(al, bh), _subn(ah, bl), None)
        if None in (al, ah, bl, bh):
            lo = hi = None
        else:
            c = (al * bl, al * bh, ah * bl, ah * bh)
            lo, hi = min(c), max(c)
        return SymInt(ea * eb, lo, hi, None)
    al, ah, bl, bh = _lo(a), _hi(a), _lo(b), _hi(b)
    if op == '+':
        lo, hi = al + bl, ah + bh
    elif op == '-':
        lo, hi = al - bh, ah - bl
    else:
        c = (al * bl, al * bh, ah * bl, ah * bh)
        lo, hi = min(c), max(c)
    if lo == hi:
        return lo
    w = need_s(lo, hi)
    ea, eb = _tw(a, w), _tw(b, w)
    e = ea + eb if op == '+' else ea - eb if op == '-' else ea * eb
    return SymInt.from_bv(e, lo, hi, True)


def _addn(a, b):
    return None if a is None or b is None else a + b


def _subn(a, b):
    return None if a is None or b is None else a - b


def _divmod(a, b):
    if not isinstance(a, SymInt) and not isinstance(b, SymInt):
        return divmod(a, b)
    # division by zero
    if isinstance(b, SymInt):
        if b.lo is None or b.hi is None or (b.lo <= 0 <= b.hi):
            if cur().branch(bexpr(b == 0)):
                raise ZeroDivisionError("integer division or modulo by zero")
            # after the branch b != 0 but the interval may still straddle zero
    elif b == 0:
        raise ZeroDivisionError("integer division or modulo by zero")
    if _is_lia(a, b):
        bl = _lo(b)
        if bl is None or bl <= 0:
            raise EngineLeak("LIA division by a divisor not known positive")
        al, ah, bh = _lo(a), _hi(a), _hi(b)
        if not isinstance(b, SymInt):
            qlo = None if al is None else al // b
            qhi = None if ah is None else ah // b
        else:
            qlo = qhi = None
            if al is not None and ah is not None:
                m = max(abs(al), abs(ah))
                qlo, qhi = (0 if al >= 0 else -m), m
        rhi = None if bh is None else bh - 1
        if not isinstance(b, SymInt):
            ex = cur()
            ea = _lia(a)
            known = find_repr(ea, b, al, ah) if b > 2 else None
            if known is not None:
                # theory lemma: equal numbers have equal digits
                if len(known) == 0:
                    return (0, 0)
                tail = known[1:]
                q = 0
                for i, d in enumerate(tail):
                    q = q + d * (b ** i)
                if isinstance(q, SymInt):
                    ex.path_state.setdefault('reprs', []).append((q.e, b, tail, q.lo, q.hi))
                return (q, known[0])
            # fresh quotient / remainder with the linear definition  a = b*q + r, 0 <= r < b
            key = ('divmod', ea.get_id(), b)
            hit = ex.path_state.get(key)
            if hit is None:
                q = z3.Int(ex.fresh_name('q'))
                r = z3.Int(ex.fresh_name('r'))
                ex.add(z3.And(ea == b * q + r, r >= 0, r < b))
                if qlo is not None:
                    ex.add(q >= qlo)
                if qhi is not None:
                    ex.add(q <= qhi)
                ex.model = None
                hit = (q, r, ea)
                ex.path_state[key] = hit
            return (SymInt(hit[0], qlo, qhi, None), SymInt(hit[1], 0, rhi, None))
        ea, eb = _lia(a), _lia(b)
        return (SymInt(ea / eb, qlo, qhi, None), SymInt(ea % eb, 0, rhi, None))
    al, ah, bl, bh = _lo(a), _hi(a), _lo(b), _hi(b)
    if al >= 0 and bl > 0:
        w = max(need_u(ah), need_u(bh))
        ea, eb = _tw(a, w), _tw(b, w)
        q = SymInt.from_bv(z3.UDiv(ea, eb), al // bh, ah // bl, False)
        r = SymInt.from_bv(z3.URem(ea, eb), 0, min(ah, bh - 1), False)
        return (q, r)
    w = max(need_s(al, ah), need_s(bl, bh)) + 1
    ea, eb = _tw(a, w), _tw(b, w)
    zero = z3.BitVecVal(0, w)
    q0 = ea / eb           # bvsdiv (truncating)
    r0 = z3.SRem(ea, eb)   # sign follows dividend
    adj = z3.And(r0 != zero, (r0 < zero) != (eb < zero))
    qe = z3.If(adj, q0 - 1, q0)
    re = z3.If(adj, r0 + eb, r0)
    m = max(abs(al), abs(ah))
    mb = max(abs(bl), abs(bh))
    q = SymInt.from_bv(qe, -m - 1, m, True)
    if bl > 0:
        r = SymInt.from_bv(re, 0, bh - 1, True)
    else:
        r = SymInt.from_bv(re, -mb, mb, True)
    return (q, r)


def _shift(op, a, b):
    r = _shift0(op, a, b)
    if isinstance(r, SymInt) and not r.lia and isinstance(a, SymInt) and a.lin is not None and not isinstance(b, SymInt) \
            and r.lo is not None and r.lo >= 0:
        if op == '<<':
            r.lin = _gf2_trim([_Z] * b + list(a.lin), r.hi)
        else:
            r.lin = _gf2_trim(list(a.lin[b:]) or [_Z], r.hi)
    return r


def _shift0(op, a, b):
    if not isinstance(a, SymInt) and not isinstance(b, SymInt):
        return a << b if op == '<<' else a >> b
    if isinstance(b, SymInt):
        if b.lo is None or b.lo < 0:
            if cur().branch(bexpr(b < 0)):
                raise ValueError("negative shift count")
            b = cur().refine_nonneg(b)
    elif b < 0:
        raise ValueError("negative shift count")
    if _is_lia(a, b):
        if isinstance(b, SymInt):
            raise EngineLeak("LIA shift by symbolic amount")
        if op == '<<':
            return _arith('*', a, 1 << b)
        return _divmod(a, 1 << b)[0]
    al, ah, bl, bh = _lo(a), _hi(a), _lo(b), _hi(b)
    if isinstance(b, SymInt) and bh > 4096:
        raise EngineLeak("shift amount interval too wide: %r" % (b,))
    if op == '<<':
        lo = (al << bl) if al >= 0 else (al << bh)
        hi = (ah << bh) if ah >= 0 else (ah << bl)
        if lo == hi:
            return lo
        w = max(need_s(lo, hi), need_s(bl, bh))
        e = _tw(a, w) << _tw(b, w)
        return SymInt.from_bv(e, lo, hi, True)
    lo = (al >> bh) if al >= 0 else (al >> bl)
    hi = (ah >> bl) if ah >= 0 else (ah >> bh)
    if lo == hi:
        return lo
    w = max(need_s(al, ah), need_s(bl, bh))
    e = _tw(a, w) >> _tw(b, w)   # z3 python '>>' is arithmetic shift
    return SymInt.from_bv(e, lo, hi, True)


# ------------------------------------------------------------------------------------------
# GF(2)-affine normal forms.  A non-negative BV SymInt may carry `lin`: a list (LSB first) of bit forms
# (const, frozenset(atoms)) meaning  const XOR (XOR of atoms).  XOR / shifts / masks / disjoint OR / ite(bit, c, 0)
# keep the form; equalities between such values are then decided syntactically (exact: the forms are the values).
# This is what makes checksum identities (parity-hard for a SAT solver) trivial.

_Z = (0, frozenset())
LIN_MAX_BITS = 64


def gf2_var(name, nbits):
    return [(0, frozenset([(name, i)])) for i in range(nbits)]


def gf2_of(x):
    """bit forms of an int-like value or None"""
    if isinstance(x, SymInt):
        return x.lin
    if isinstance(x, bool):
        x = int(x)
    if isinstance(x, int) and x >= 0:
        return [((x >> i) & 1, frozenset()) for i in range(max(1, x.bit_length()))]
    return None


def _gf2_bit(f, i):
    return f[i] if i < len(f) else _Z


def _gf2_xor1(p, q):
    return (p[0] ^ q[0], p[1] ^ q[1])


def gf2_xor(fa, fb):
    n = max(len(fa), len(fb))
    return [_gf2_xor1(_gf2_bit(fa, i), _gf2_bit(fb, i)) for i in range(n)]


def _gf2_trim(f, hi):
    n = max(1, hi.bit_length())
    return f[:n] if len(f) > n else f


def _gf2_const_value(f):
    v = 0
    for i, (c, atoms) in enumerate(f):
        if atoms:
            return None
        v |= c << i
    return v


def _bitop(op, a, b):
    r = _bitop0(op, a, b)
    if isinstance(r, SymInt) and not r.lia and r.lo is not None and r.lo >= 0:
        fa, fb = gf2_of(a), gf2_of(b)
        if fa is not None and fb is not None and max(len(fa), len(fb)) <= LIN_MAX_BITS * 8:
            if op == '^':
                r.lin = _gf2_trim(gf2_xor(fa, fb), r.hi)
            elif op == '&':
                out = []
                okk = True
                for i in range(max(len(fa), len(fb))):
                    p, q = _gf2_bit(fa, i), _gf2_bit(fb, i)
                    if not p[1] and p[0] == 0 or not q[1] and q[0] == 0:
                        out.append(_Z)
                    elif not p[1] and p[0] == 1:
                        out.append(q)
                    elif not q[1] and q[0] == 1:
                        out.append(p)
                    else:
                        okk = False
                        break
                if okk:
                    r.lin = _gf2_trim(out, r.hi)
            elif op == '|':
                out = []
                okk = True
                for i in range(max(len(fa), len(fb))):
                    p, q = _gf2_bit(fa, i), _gf2_bit(fb, i)
                    if p == _Z:
                        out.append(q)
                    elif q == _Z:
                        out.append(p)
                    elif (not p[1] and p[0] == 1) or (not q[1] and q[0] == 1):
                        out.append((1, frozenset()))
                    else:
                        okk = False
                        break
                if okk:
                    r.lin = _gf2_trim(out, r.hi)
    return r


def _bitop0(op, a, b):
    if not isinstance(a, SymInt) and not isinstance(b, SymInt):
        return {'&': a & b, '|': a | b, '^': a ^ b}[op]
    if _is_lia(a, b):
        # only x & (2^k - 1) and x | / ^ with disjoint... keep to the mask case
        if op == '&':
            for x, m in ((a, b), (b, a)):
                if not isinstance(m, SymInt) and m >= 0 and (m & (m + 1)) == 0:
                    if m == 0:
                        return 0
                    xl = _lo(x)
                    if xl is not None and xl >= 0:
                        return _divmod(x, m + 1)[1]
                    return _divmod(x, m + 1)[1]
        raise EngineLeak("bit operation %s in LIA mode" % op)
    al, ah, bl, bh = _lo(a), _hi(a), _lo(b), _hi(b)
    w = max(need_s(al, ah), need_s(bl, bh))
    ea, eb = _tw(a, w), _tw(b, w)
    if op == '&':
        e = ea & eb
        if al >= 0 and bl >= 0:
            lo, hi = 0, min(ah, bh)
        elif al >= 0:
            lo, hi = 0, ah
        elif bl >= 0:
            lo, hi = 0, bh
        else:
            lo, hi = -(1 << (w - 1)), (1 << (w - 1)) - 1
    else:
        e = (ea | eb) if op == '|' else (ea ^ eb)
        if al >= 0 and bl >= 0:
            lo, hi = 0, (1 << max(ah.bit_length(), bh.bit_length())) - 1
            if op == '|':
                lo = max(al, bl)
        else:
            lo, hi = -(1 << (w - 1)), (1 << (w - 1)) - 1
    if lo == hi:
        return lo
    return SymInt.from_bv(e, lo, hi, True)


def _tbl(x):
    t = x.tag if isinstance(x, SymInt) else None
    if t is not None and t[0] == 'tbl' and len(set(t[1])) == len(t[1]):
        return t
    return None


def _cmp(op, a, b):
    if not isinstance(a, SymInt) and not isinstance(b, SymInt):
        return {'==': a == b, '!=': a != b, '<': a < b, '<=': a <= b}[op]
    if op in ('==', '!='):
        # characters selected from an injective table compare like their indices
        ta, tb = _tbl(a), _tbl(b)
        r = None
        if ta is not None and tb is not None and ta[1] == tb[1]:
            r = _cmp('==', ta[2], tb[2])
        elif ta is not None and not isinstance(b, SymInt):
            k = ta[1].find(chr(b)) if 0 <= b < 0x110000 else -1
            r = False if k < 0 else _cmp('==', ta[2], k)
        elif tb is not None and not isinstance(a, SymInt):
            k = tb[1].find(chr(a)) if 0 <= a < 0x110000 else -1
            r = False if k < 0 else _cmp('==', tb[2], k)
        if r is not None:
            return r if op == '==' else s_not(r)
        fa, fb = gf2_of(a), gf2_of(b)
        if fa is not None and fb is not None:
            x = gf2_xor(fa, fb)
            undecided = [f for f in x if f[1]]
            if any((not f[1]) and f[0] == 1 for f in x):
                return op == '!='          # some bit differs for every assignment
            if not undecided:
                return op == '=='          # identical for every assignment
            if len(undecided) == 1:
                # equality depends on a single affine bit: keep its form on the SymBool (used by ite merging)
                res = _cmp_plain(op, a, b)
                if isinstance(res, SymBool):
                    f = undecided[0]
                    # a == b  <=>  that bit is 0
                    res.lin = (f[0] ^ 1, f[1]) if op == '==' else (f[0], f[1])
                return res
    return _cmp_plain(op, a, b)


def _cmp_plain(op, a, b):
    al, ah, bl, bh = _lo(a), _hi(a), _lo(b), _hi(b)
    if None not in (al, ah, bl, bh):
        if op == '<':
            if ah < bl:
                return True
            if al >= bh:
                return False
        elif op == '<=':
            if ah <= bl:
                return True
            if al > bh:
                return False
        elif ah < bl or bh < al:
            return op == '!='
    if _is_lia(a, b):
        ea, eb = _lia(a), _lia(b)
    else:
        w = max(need_s(al, ah), need_s(bl, bh))
        ea, eb = _tw(a, w), _tw(b, w)
    if op == '==':
        return mkbool(ea == eb)
    if op == '!=':
        return mkbool(ea != eb)
    if op == '<':
        return mkbool(ea < eb)
    return mkbool(ea <= eb)


def register_repr(value, base, digits_le):
    """record that `value` (LIA SymInt) equals sum digits_le[i]*base^i with every digit in [0, base).
    Used as a theory lemma (uniqueness of positional representation) by lia_digits/_divmod."""
    if not isinstance(value, SymInt) or not value.lia:
        return
    for d in digits_le:
        lo, hi = (d.lo, d.hi) if isinstance(d, SymInt) else (d, d)
        if lo is None or hi is None or lo < 0 or hi >= base:
            return
    ex = cur()
    ex.path_state.setdefault('reprs', []).append((value.e, base, list(digits_le), value.lo, value.hi))


def find_repr(xe, base, lo=None, hi=None):
    """digits (little-endian) of the LIA term xe in `base`, if the path condition entails equality with a registered
    positional representation (decided by the solver)"""
    ex = cur()
    reg = ex.path_state.get('reprs')
    if not reg:
        return None
    cache = ex.path_state.setdefault('repr_cache', {})
    if hi is not None and hi < base * base:
        return None
    for (ye, b, ds, ylo, yhi) in reg:
        if not (b == base or (b, base) in ((256, 16), (16, 256))):
            continue
        if lo is not None and yhi is not None and lo > yhi:
            continue
        if hi is not None and ylo is not None and hi < ylo:
            continue
        key = (xe.get_id(), ye.get_id())
        hit = cache.get(key)
        if hit is None:
            if xe.get_id() == ye.get_id():
                hit = True
            else:
                hit = ex.entails_linear(xe == ye)
            cache[key] = hit
        if hit:
            if b == base:
                return ds
            if b == 256 and base == 16:
                out = []
                for d in ds:
                    if isinstance(d, SymInt):
                        q, r = _divmod(d, 16)
                        out.extend([r, q])
                    else:
                        out.extend([d % 16, d // 16])
                return out
            if b == 16 and base == 256:
                dd = list(ds) + ([0] if len(ds) % 2 else [])
                return [dd[i] + 16 * dd[i + 1] for i in range(0, len(dd), 2)]
    return None


def lia_digits(x, base, k):
    """little-endian base-`base` digits d_0..d_{k-1} of a non-negative LIA int x (fresh variables with the linear
    definition  x = sum d_i base^i + base^k * rest,  0 <= d_i < base, rest >= 0).  Memoised per path."""
    ex = cur()
    known = find_repr(x.e, base, x.lo, x.hi)
    if known is not None:
        return (list(known) + [0] * k)[:k]
    key = ('digits', x.e.get_id(), base)
    hit = ex.path_state.get(key)
    if hit is None or len(hit[0]) < k:
        ds = [z3.Int(ex.fresh_name('dg')) for _ in range(k)]
        rest = z3.Int(ex.fresh_name('rest'))
        tot = rest * (base ** k)
        for i, d in enumerate(ds):
            tot = tot + d * (base ** i)
            ex.add(z3.And(d >= 0, d < base))
        ex.add(z3.And(x.e == tot, rest >= 0))
        ex.model = None
        hit = (ds, x.e)
        ex.path_state[key] = hit
    return [SymInt(d, 0, base - 1, None) for d in hit[0][:k]]


def vint(x=0, base=None):
    """replacement for the int(...) call form inside the library"""
    from . import vtypes
    if base is not None:
        if isinstance(x, vtypes.VStr):
            return vtypes.parse_int(x, base)
        return _real_int(x, base)
    if isinstance(x, SymInt):
        return x
    if isinstance(x, SymBool):
        return x.as_int()
    if isinstance(x, vtypes.VStr):
        return vtypes.parse_int(x, 10)
    from . import symfloat
    if isinstance(x, symfloat.SymFloat):
        return x.to_int()
    if isinstance(x, symfloat.SymDecimal):
        return x.to_int()
    return _real_int(x)


# ------------------------------------------------------------------------------------------
# Explorer


class Counterexample(object):
    def __init__(self, label, inputs, detail, path):
        self.label = label
        self.inputs = inputs
        self.detail = detail
        self.path = path


class Stats(object):
    def __init__(self):
        self.paths = 0
        self.branches = 0
        self.queries = 0
        self.solver_s = 0.0
        self.obligations = 0
        self.discharged = 0
        self.aborted = 0
        self.labels = {}
        self.concretizations = 0
        self.fallback_queries = 0

    def as_dict(self):
        return dict(self.__dict__)

    def merge(self, o):
        self.fallback_queries = getattr(self, 'fallback_queries', 0) + o.get('fallback_queries', 0)
        for k in ('paths', 'branches', 'queries', 'obligations', 'discharged', 'aborted', 'concretizations'):
            setattr(self, k, getattr(self, k) + o[k])
        self.solver_s += o['solver_s']
        for k, v in o['labels'].items():
            self.labels[k] = self.labels.get(k, 0) + v


class Explorer(object):
    """Depth-first exploration of a harness by re-execution under decision prefixes."""

    def __init__(self, fn, max_paths=200000, max_seconds=3600.0, query_timeout_ms=60000,
                 max_cex=3, witness_every=0, conc_cap=300, inc_timeout_ms=8000, backend='z3'):
        self.inc_timeout_ms = inc_timeout_ms
        self.backend = backend
        self.fn = fn
        self.max_paths = max_paths
        self.max_seconds = max_seconds
        self.query_timeout_ms = query_timeout_ms
        self.max_cex = max_cex
        self.conc_cap = conc_cap
        self.stats = Stats()
        self.cex = []
        self.witnesses = []       # sampled passing-path models (inputs dicts)
        self.witness_every = witness_every
        self.inputs = None
        self.solver = None
        self.prefix = None
        self.pos = 0
        self.model = None
        self.pending = []
        self.fresh = 0
        self.path_state = {}
        self.extra_exports = []

    # -- solver plumbing ----------------------------------------------------------------
    def _check(self, extra=None):
        """decide  path-condition /\ extra.  Incremental z3 first (short timeout); on unknown retry with a fresh
        non-incremental z3 solver (full tactic pipeline).  backend == 'cvc5' sends the query to the cvc5 binary
        (much faster on floating point) and rebuilds a z3 model from its values."""
        t = time.time()
        self.stats.queries += 1
        try:
            if self.backend == 'cvc5':
                r, m = self._check_cvc5(extra)
            else:
                if extra is not None:
                    self.solver.push()
                    self.solver.add(extra)
                self.solver.set('timeout', min(self.inc_timeout_ms, self.query_timeout_ms))
                r = self.solver.check()
                m = self.solver.model() if r == z3.sat else None
                if extra is not None:
                    self.solver.pop()
                if r == z3.unknown:
                    s2 = z3.Solver()
                    s2.set('timeout', min(self.query_timeout_ms, 150000))
                    s2.add(self.asserted)
                    if extra is not None:
                        s2.add(extra)
                    self.stats.queries += 1
                    self.stats.fallback_queries += 1
                    if os.environ.get('SYMX_DUMP'):
                        with open(os.path.join(os.environ['SYMX_DUMP'], 'q%d.smt2' % self.stats.queries), 'w') as f:
                            f.write(s2.to_smt2())
                    r = s2.check()
                    m = s2.model() if r == z3.sat else None
                    if r == z3.unknown:
                        # last resort: the other solver (different heuristics; decisive on some LIA / FP queries z3 gives up on)
                        why = s2.reason_unknown()
                        try:
                            self.stats.queries += 1
                            r, m = self._check_cvc5(extra)
                        except Inconclusive as e2:
                            raise Inconclusive("solver returned unknown (z3: %s; cvc5: %s)" % (why, e2))
        finally:
            dt = time.time() - t
            self.stats.solver_s += dt
            if dt > 1.0 and os.environ.get('SYMX_TRACE'):
                import traceback
                fr = [f for f in traceback.extract_stack()[:-1] if 'symx/core.py' not in f.filename][-3:]
                sys.stderr.write('SLOWQ %.1fs %s\n' % (dt, ' <- '.join('%s:%d' % (os.path.basename(f.filename), f.lineno) for f in reversed(fr))))
        self._last_model = m
        return r

    def _check_cvc5(self, extra):
        import subprocess
        import tempfile
        import os
        s2 = z3.Solver()
        s2.add(self.asserted)
        if extra is not None:
            s2.add(extra)
        consts = {}
        for a in s2.assertions():
            _collect_consts(a, consts)
        body = s2.to_smt2()
        names = sorted(consts)
        gv = '(get-value (%s))\n' % ' '.join(_smt_name(n) for n in names) if names else ''
        text = '(set-option :produce-models true)\n(set-logic ALL)\n' + body + gv
        fd, path = tempfile.mkstemp(suffix='.smt2', prefix='symx_')
        try:
            with os.fdopen(fd, 'w') as f:
                f.write(text)
            try:
                p = subprocess.run(['cvc5', '--tlimit=%d' % self.query_timeout_ms, path], capture_output=True, text=True,
                                   timeout=self.query_timeout_ms / 1000.0 + 30)
            except subprocess.TimeoutExpired:
                raise Inconclusive("cvc5 timed out")
        finally:
            try:
                os.remove(path)
            except OSError:
                pass
        out = p.stdout.strip()
        first = out.split('\n', 1)[0].strip()
        rest = out.split('\n', 1)[1] if '\n' in out else ''
        if first == 'unsat' and rest.count('(error') <= 1 and 'Cannot get value' in (rest or 'Cannot get value'):
            return z3.unsat, None
        if '(error' in out or '(error' in p.stderr:
            raise Inconclusive("cvc5 error: %s %s" % (out[:300], p.stderr[:300]))
        if first != 'sat':
            raise Inconclusive("cvc5 returned %r" % first[:80])
        vals = _parse_get_value(out.split('\n', 1)[1] if '\n' in out else '')
        s3 = z3.Solver()
        s3.set('timeout', self.query_timeout_ms)
        s3.add(s2.assertions())
        for n in names:
            if n in vals:
                c = consts[n]
                v = _z3_value(c, vals[n])
                if v is not None:
                    s3.add(c == v if not z3.is_fp(c) else z3.fpToIEEEBV(c) == v)
        r = s3.check()
        if r != z3.sat:
            raise Inconclusive("could not rebuild a z3 model from cvc5 values (%s)" % r)
        return z3.sat, s3.model()

    def entails_linear(self, goal):
        """sound, incomplete: does the purely linear-arithmetic part of the path condition entail `goal`?
        (fresh solver over the assertions that contain no if-then-else / bit-vector / uninterpreted terms)"""
        t = time.time()
        s2 = z3.SolverFor('QF_LIA')
        s2.set('timeout', min(self.query_timeout_ms, 30000))
        for a in self.asserted:
            if _pure_lia(a):
                s2.add(a)
        s2.add(z3.Not(goal))
        r = s2.check()
        self.stats.queries += 1
        dt = time.time() - t
        self.stats.solver_s += dt
        if dt > 1.0 and os.environ.get('SYMX_TRACE'):
            sys.stderr.write('SLOWQ(entails_linear) %.1fs %s\n' % (dt, r))
        return r == z3.unsat

    def get_model(self):
        if self.model is None:
            r = self._check()
            if r != z3.sat:
                raise PathAbort()
            self.model = self._last_model
        return self.model

    def add(self, e):
        self._assert(e)

    def _assert(self, e):
        """every path-condition conjunct goes through here: the Python-side list is the authoritative copy
        (z3's Solver.assertions() returns a preprocessed set that may have eliminated variables)"""
        self.asserted.append(e)
        self.solver.add(e)
        self.model = None          # a cached model need not satisfy the new conjunct

    def fresh_name(self, base):
        self.fresh += 1
        return '%s!%d' % (base, self.fresh)

    # -- branching ----------------------------------------------------------------------
    def branch(self, cond):
        k = _kind(cond)
        if k == _K_TRUE:
            return True
        if k == _K_FALSE:
            return False
        # path-local memo: a condition decided once on this path stays decided (the path condition only grows)
        neg = False
        base = cond
        while k == _K_NOT:
            base = base.arg(0)
            neg = not neg
            k = _kind(base)
        key = base.get_id()
        hit = self.bcache.get(key)
        if hit is not None:
            return hit[0] != neg
        self.stats.branches += 1
        i = self.pos
        if i < len(self.prefix):
            d = self.prefix[i]
            if not isinstance(d, bool):
                raise EngineLeak("decision prefix misaligned at a branch (non-deterministic harness?)")
            self.pos += 1
            self._assert(cond if d else z3.Not(cond))
            self.model = None
            self.bcache[key] = (d != neg, base)
            return d
        m = self.get_model()
        v = z3.is_true(m.eval(cond, model_completion=True))
        other = z3.Not(cond) if v else cond
        r = self._check(other)
        if r == z3.sat:
            self.pending.append(self.prefix[:i] + [not v])
            self._assert(cond if v else z3.Not(cond))
            self.model = m         # m satisfies the side we follow
        # every non-trivial, non-memoised branch call records one decision so that replay stays aligned
        self.prefix.append(v)
        self.pos += 1
        self.bcache[key] = (v != neg, base)
        return v

    def concretize(self, x):
        """fork over the feasible values of a SymInt (bounded).  The chosen value is recorded in the decision
        prefix (it depends on the solver's model), so that re-execution replays exactly the same split."""
        if not isinstance(x, SymInt):
            return x
        self.stats.concretizations += 1
        n = 0
        while True:
            i = self.pos
            if i < len(self.prefix):
                ent = self.prefix[i]
                if not (isinstance(ent, tuple) and ent[0] == 'v'):
                    raise EngineLeak("decision prefix misaligned at a concretisation (non-deterministic harness?)")
                v, taken = ent[1], ent[2]
                c = self._eqv(x, v)
                self.pos += 1
                self._assert(c if taken else z3.Not(c))
                self.model = None
                if taken:
                    return v
                n += 1
                continue
            m = self.get_model()
            if x.lia:
                v = m.eval(x.e, model_completion=True).as_long()
            else:
                mv = m.eval(x.e, model_completion=True)
                v = mv.as_signed_long() if x.signed else mv.as_long()
            c = self._eqv(x, v)
            self.stats.branches += 1
            r = self._check(z3.Not(c))
            if r == z3.sat:
                self.pending.append(self.prefix[:i] + [('v', v, False)])
                self._assert(c)
                self.model = m
            self.prefix.append(('v', v, True))
            self.pos += 1
            n += 1
            if n > self.conc_cap:
                raise Inconclusive("concretisation cap exceeded for %r" % (x,))
            return v

    def _eqv(self, x, v):
        if x.lia:
            return x.e == v
        return x.e == z3.BitVecVal(v, x.e.size())

    def refine_nonneg(self, b):
        if b.lia:
            return SymInt(b.e, 0 if b.lo is None else max(0, b.lo), b.hi, None)
        return SymInt.from_bv(b.tw(b.sw()), max(0, b.lo), b.hi, True)

    # -- harness API (also see ctx.py) --------------------------------------------------
    def assume(self, c):
        if isinstance(c, (SymBool, SymInt)):
            self._assert(bexpr(c))
            self.model = None
            if self._check() != z3.sat:
                raise PathAbort()
            self.model = self._last_model
        elif not c:
            raise PathAbort()

    def check(self, c, label, detail=None):
        st = self.stats
        st.obligations += 1
        st.labels[label] = st.labels.get(label, 0) + 1
        if isinstance(c, (SymBool, SymInt)):
            r = self._check(z3.Not(bexpr(c)))
            if r == z3.sat:
                self._record_cex(label, self._last_model, detail)
                return False
            st.discharged += 1
            return True
        if c:
            st.discharged += 1
            return True
        self.model = None          # re-establish feasibility of the path before reporting (PathAbort if infeasible)
        self._record_cex(label, self.get_model(), detail)
        return False

    def fail(self, label, detail=None):
        self.stats.obligations += 1
        self.stats.labels[label] = self.stats.labels.get(label, 0) + 1
        self.model = None
        self._record_cex(label, self.get_model(), detail)

    def _model_inputs(self, m):
        out = {}
        for name, (kind, obj) in self.inputs.items():
            out[name] = _eval_input(m, kind, obj)
        return out

    def _record_cex(self, label, m, detail):
        self.cex.append(Counterexample(label, self._model_inputs(m), detail, list(self.prefix[:self.pos])))
        if len(self.cex) >= self.max_cex:
            raise HarnessViolation()

    # -- main loop ----------------------------------------------------------------------
    def run(self):
        global _cur
        t0 = time.time()
        self.pending = [[]]
        status = 'ok'
        reason = None
        prev = _cur
        _cur = self
        try:
            while self.pending:
                if self.stats.paths >= self.max_paths:
                    raise Inconclusive("path budget %d exhausted" % self.max_paths)
                if time.time() - t0 > self.max_seconds:
                    raise Inconclusive("time budget %.0fs exhausted" % self.max_seconds)
                pre = self.pending.pop()
                self._one_path(pre)
        except Inconclusive as e:
            status = 'inconclusive'
            reason = str(e)
        except HarnessViolation:
            status = 'violation'
        finally:
            _cur = prev
        if self.cex and status == 'ok':
            status = 'violation'
        return status, reason

    def _one_path(self, pre):
        self.solver = z3.Solver()
        self.asserted = []
        self.prefix = list(pre)
        self.pos = 0
        self.model = None
        self.fresh = 0
        self.inputs = {}
        self.path_state = {}
        self.bcache = {}
        self.stats.paths += 1
        ncex = len(self.cex)
        try:
            self.fn(self)
        except PathAbort:
            self.stats.aborted += 1
            return
        if len(self.cex) != ncex:
            return
        if self.witness_every and (self.stats.paths % self.witness_every == 1 or self.witness_every == 1):
            if len(self.witnesses) < 400:
                try:
                    self.witnesses.append(self._model_inputs(self.get_model()))
                except PathAbort:
                    pass


_pl_cache = {}


def _pure_lia(e):
    i = e.get_id()
    r = _pl_cache.get(i)
    if r is not None:
        return r[0]
    ok = True
    todo = [e]
    seen = set()
    while todo:
        t = todo.pop()
        j = t.get_id()
        if j in seen:
            continue
        seen.add(j)
        if z3.is_bv(t) or z3.is_fp(t):
            ok = False
            break
        if z3.is_app(t):
            k = t.decl().kind()
            if k == z3.Z3_OP_ITE or (k == z3.Z3_OP_UNINTERPRETED and t.num_args() > 0):
                ok = False
                break
            todo.extend(t.children())
    if len(_pl_cache) > 200000:
        _pl_cache.clear()
    _pl_cache[i] = (ok, e)
    return ok


def _collect_consts(e, acc):
    todo = [e]
    seen = set()
    while todo:
        t = todo.pop()
        i = t.get_id()
        if i in seen:
            continue
        seen.add(i)
        if z3.is_const(t) and t.decl().kind() == z3.Z3_OP_UNINTERPRETED:
            acc[t.decl().name()] = t
        else:
            todo.extend(t.children())


def _smt_name(n):
    import re
    return n if re.match(r'^[A-Za-z_][A-Za-z0-9_.]*$', n) else '|%s|' % n


def _tokenize(s):
    out = []
    i = 0
    n = len(s)
    while i < n:
        c = s[i]
        if c in '()':
            out.append(c)
            i += 1
        elif c.isspace():
            i += 1
        elif c == '|':
            j = s.index('|', i + 1)
            out.append(s[i + 1:j])
            i = j + 1
        else:
            j = i
            while j < n and not s[j].isspace() and s[j] not in '()':
                j += 1
            out.append(s[i:j])
            i = j
    return out


def _parse_sexp(toks, pos):
    if toks[pos] == '(':
        lst = []
        pos += 1
        while toks[pos] != ')':
            x, pos = _parse_sexp(toks, pos)
            lst.append(x)
        return lst, pos + 1
    return toks[pos], pos + 1


def _parse_get_value(text):
    text = text.strip()
    if not text:
        return {}
    toks = _tokenize(text)
    sx, _ = _parse_sexp(toks, 0)
    out = {}
    for pair in sx:
        if isinstance(pair, list) and len(pair) == 2 and isinstance(pair[0], str):
            out[pair[0]] = pair[1]
    return out


def _bvlit(x):
    if isinstance(x, str):
        if x.startswith('#b'):
            return int(x[2:], 2), len(x) - 2
        if x.startswith('#x'):
            return int(x[2:], 16), 4 * (len(x) - 2)
    if isinstance(x, list) and len(x) == 3 and x[0] == '_' and x[1].startswith('bv'):
        return int(x[1][2:]), int(x[2])
    return None


def _z3_value(c, v):
    if z3.is_bool(c):
        return z3.BoolVal(v == 'true')
    if z3.is_bv(c):
        b = _bvlit(v)
        return None if b is None else z3.BitVecVal(b[0], c.size())
    if z3.is_int(c):
        if isinstance(v, list) and v and v[0] == '-':
            return z3.IntVal(-int(v[1]))
        return z3.IntVal(int(v))
    if z3.is_fp(c):
        eb, sb = c.sort().ebits(), c.sort().sbits()
        tot = eb + sb
        if isinstance(v, list) and v and v[0] == 'fp':
            s_, e_, m_ = _bvlit(v[1]), _bvlit(v[2]), _bvlit(v[3])
            return z3.BitVecVal((s_[0] << (tot - 1)) | (e_[0] << (sb - 1)) | m_[0], tot)
        if isinstance(v, list) and len(v) == 4 and v[0] == '_':
            kind = v[1]
            if kind == '+zero':
                return z3.BitVecVal(0, tot)
            if kind == '-zero':
                return z3.BitVecVal(1 << (tot - 1), tot)
            if kind == '+oo':
                return z3.BitVecVal(((1 << eb) - 1) << (sb - 1), tot)
            if kind == '-oo':
                return z3.BitVecVal((1 << (tot - 1)) | (((1 << eb) - 1) << (sb - 1)), tot)
            if kind == 'NaN':
                return z3.BitVecVal((((1 << eb) - 1) << (sb - 1)) | 1, tot)
        return None
    return None


def _eval_input(m, kind, obj):
    if kind == 'int':
        if not isinstance(obj, SymInt):
            return obj
        v = m.eval(obj.e, model_completion=True)
        if obj.lia:
            return v.as_long()
        return v.as_signed_long() if obj.signed else v.as_long()
    if kind == 'bytes':
        return bytes(_eval_input(m, 'int', b) for b in obj).hex()
    if kind == 'str':
        return [_eval_input(m, 'int', b) for b in obj]
    if kind == 'bool':
        if isinstance(obj, SymBool):
            return z3.is_true(m.eval(obj.e, model_completion=True))
        return bool(obj)
    if kind == 'choice':
        return _eval_input(m, 'int', obj)
    if kind == 'float':
        bv = m.eval(z3.fpToIEEEBV(obj.e), model_completion=True)
        return '%016x' % bv.as_long()
    raise EngineLeak("unknown input kind %s" % kind)
