"""Driver:  python3-vt /verif/symx/cli.py C07 --tier quick|thorough [--only HARNESS] [--jobs N]
               python3-vt /verif/symx/cli.py C07 --replay FILE

exit 0  every obligation discharged within the bounds (KNOWN-FINDING lines allowed)
exit 1  VIOLATION property=<id> replay=<path>   (reproduced on the real import, not a known finding)
exit 2  inconclusive / engine error (budget, solver unknown, leak, non-reproducing counterexample)
"""
import argparse
import importlib
import json
import multiprocessing as mp
import os
import subprocess
import sys
import time
import traceback

VERIF = os.path.dirname(os.path.dirname(os.path.abspath(__file__)))
sys.path.insert(0, VERIF)

from symx import core, loader, ctx as ctxmod  # noqa: E402

REPLAY_PY = os.environ.get('SYMX_REPLAY_PY', '/venv/bin/python')
REPO = loader.REPO

_LIB = None
_PROP = None


def _lib():
    global _LIB
    if _LIB is None:
        _LIB = loader.Lib()
    return _LIB


def _run_instance(task):
    """worker: explore one harness instance"""
    idx, prop_id, inst, tier = task
    t0 = time.time()
    try:
        prop = importlib.import_module('props.' + prop_id)
        lib = _lib()
        SymCtx = ctxmod.make_symctx_class()
        fn = prop.HARNESSES[inst['h']]
        params = inst.get('p', {})

        def run(ex):
            try:
                lib.reset()
                lib['bitcoin'].SelectParams('mainnet')
                fn(SymCtx(ex, lib), **params)
            except (core.PathAbort, core.Inconclusive, core.HarnessViolation):
                raise
            except core.EngineLeak:
                raise
            except ctxmod.HarnessBug:
                raise
            except Exception as e:
                # an exception escaping the harness is a violation candidate (replayed before it is reported)
                if _where(e) == '?':
                    raise ctxmod.HarnessBug('exception raised outside /repo code: %s' % traceback.format_exc()[-1200:])
                ex.fail('uncaught:%s' % type(e).__name__, detail=''.join(traceback.format_exception_only(type(e), e))[:300]
                        + ' @ ' + _where(e))
        ex = core.Explorer(run, max_paths=inst.get('max_paths', 200000),
                           max_seconds=inst.get('max_seconds', 600 if tier == 'quick' else 3000),
                           query_timeout_ms=inst.get('qto', 180000 if tier == 'quick' else 600000),
                           witness_every=inst.get('witness_every', 1), max_cex=inst.get('max_cex', 2),
                           inc_timeout_ms=inst.get('inc_to', 8000), backend=inst.get('backend', 'z3'))
        status, reason = ex.run()
        return dict(idx=idx, status=status, reason=reason, stats=ex.stats.as_dict(),
                    cex=[dict(label=c.label, inputs=c.inputs, detail=c.detail) for c in ex.cex],
                    witnesses=ex.witnesses[:inst.get('keep_witnesses', 3)], wall=time.time() - t0)
    except core.EngineLeak as e:
        return dict(idx=idx, status='error', reason='EngineLeak: %s\n%s' % (e, traceback.format_exc()[-1500:]),
                    stats=None, cex=[], witnesses=[], wall=time.time() - t0)
    except BaseException as e:
        return dict(idx=idx, status='error', reason='%s: %s\n%s' % (type(e).__name__, e, traceback.format_exc()[-1500:]),
                    stats=None, cex=[], witnesses=[], wall=time.time() - t0)


def _where(e):
    tb = e.__traceback__
    last = None
    while tb is not None:
        f = tb.tb_frame.f_code.co_filename
        if f.startswith(REPO):
            last = '%s:%d' % (os.path.relpath(f, REPO), tb.tb_lineno)
        tb = tb.tb_next
    return last or '?'


def run_replay(path):
    """replay a case file on the real import; returns dict(failed=[..], exception=..)"""
    env = dict(os.environ)
    env['PYTHONPATH'] = REPO + os.pathsep + VERIF
    p = subprocess.run([REPLAY_PY, os.path.join(VERIF, 'replay.py'), path], env=env,
                       capture_output=True, text=True, timeout=900)
    try:
        return json.loads(p.stdout.strip().splitlines()[-1])
    except Exception:
        return dict(error='replay crashed: rc=%s stdout=%r stderr=%r' % (p.returncode, p.stdout[-400:], p.stderr[-800:]))


def _known(prop_id):
    try:
        with open(os.path.join(VERIF, 'known_findings.json')) as f:
            kf = json.load(f)
    except FileNotFoundError:
        return []
    return [k for k in kf.get('findings', []) if k['property'] == prop_id and k.get('status', 'open') == 'open']


def _match_known(k, harness, params, label, inputs):
    m = k.get('match', {})
    if 'harness' in m and m['harness'] != harness:
        return False
    if 'label' in m and m['label'] != label and not label.startswith(m['label']):
        return False
    if 'when' in m:
        env = dict(inputs=inputs, params=params, label=label, len=len, bytes=bytes, int=int, all=all, any=any)
        try:
            return bool(eval(m['when'], {'__builtins__': {}}, env))
        except Exception:
            return False
    return True


def main():
    ap = argparse.ArgumentParser()
    ap.add_argument('prop')
    ap.add_argument('--tier', default=os.environ.get('VERIF_TIER', 'quick'))
    ap.add_argument('--replay')
    ap.add_argument('--only')
    ap.add_argument('--jobs', type=int, default=int(os.environ.get('SYMX_JOBS', '16')))
    ap.add_argument('--no-evidence', action='store_true')
    ap.add_argument('--slow', action='store_true', help='print the slowest instances')
    a = ap.parse_args()
    prop_id = a.prop
    seed = int(os.environ.get('VERIF_SEED', '0') or 0)

    if a.replay:
        r = run_replay(a.replay)
        print(json.dumps(r))
        if r.get('failed') or r.get('exception'):
            print('VIOLATION property=%s replay=%s' % (prop_id, a.replay))
            sys.exit(1)
        sys.exit(0 if 'error' not in r else 2)

    t0 = time.time()
    prop = importlib.import_module('props.' + prop_id)
    insts = prop.instances(a.tier)
    if a.only:
        insts = [i for i in insts if i['h'] == a.only or i['h'].startswith(a.only)]
    # seed only orders the work list
    if seed:
        import random
        random.Random(seed).shuffle(insts)
    _lib()   # shadow-load /repo's current tree once, children inherit it by fork
    tasks = [(i, prop_id, inst, a.tier) for i, inst in enumerate(insts)]
    # work order: round-robin over the harnesses, so that every harness is represented among the first tasks to finish
    rank, cnt = {}, {}
    for t in tasks:
        h = t[2]['h']
        rank[t[0]] = cnt.get(h, 0)
        cnt[h] = rank[t[0]] + 1
    tasks.sort(key=lambda t: (rank[t[0]], t[0]))
    results = []
    cut_short = []
    os.makedirs(os.path.join(VERIF, 'replays', prop_id), exist_ok=True)
    known = _known(prop_id)
    triaged = {}

    def triage(inst, c):
        """replay one counterexample candidate on the real import -> (kind, path, replay result, known finding)"""
        key = (inst['h'], c['label'], json.dumps(c['inputs'], sort_keys=True))
        if key in triaged:
            return triaged[key]
        path = os.path.join(VERIF, 'replays', prop_id, '%s-%s-%d.json' % (
            inst['h'], ''.join(ch if ch.isalnum() else '_' for ch in c['label'])[:40], len(triaged)))
        case = dict(property=prop_id, harness=inst['h'], params=inst.get('p', {}), inputs=c['inputs'],
                    label=c['label'], detail=c['detail'])
        with open(path, 'w') as f:
            json.dump(case, f, indent=1, sort_keys=True)
        rr = run_replay(path)
        res = ('discrepancy', path, rr, None)
        if rr.get('failed') or rr.get('exception'):
            lab = (rr.get('failed') or ['uncaught:' + rr['exception'].split(':')[0]])[0]
            hit = None
            for k in known:
                if _match_known(k, inst['h'], inst.get('p', {}), lab, c['inputs']) or \
                        _match_known(k, inst['h'], inst.get('p', {}), c['label'], c['inputs']):
                    hit = k
                    break
            if hit:
                os.remove(path)
                res = ('known', path, rr, hit)
            else:
                res = ('violation', path, rr, None)
        triaged[key] = res
        return res
    jobs = max(1, min(a.jobs, len(tasks)))
    if jobs == 1:
        for t in tasks:
            results.append(_run_instance(t))
    else:
        # once a counterexample has been confirmed on the real code the verdict (exit 1) is settled: the remaining instances get a
        # grace period and are then cut off, so that a change which also makes other instances explode cannot delay the report
        grace = float(os.environ.get('SYMX_GRACE_S', '150' if a.tier == 'quick' else '600'))
        deadline = None
        cx = mp.get_context('fork')
        with cx.Pool(jobs, maxtasksperchild=50) as pool:
            it = pool.imap_unordered(_run_instance, tasks, chunksize=1)
            while len(results) < len(tasks):
                try:
                    r = it.next(timeout=5)
                except mp.TimeoutError:
                    r = None
                except StopIteration:
                    break
                if r is not None:
                    results.append(r)
                    if deadline is None:
                        for c in r['cex']:
                            if triage(insts[r['idx']], c)[0] == 'violation':
                                deadline = time.time() + grace
                                break
                if deadline is not None and time.time() > deadline:
                    pool.terminate()
                    break
        done = set(r['idx'] for r in results)
        for i, inst in enumerate(insts):
            if i not in done:
                cut_short.append(inst)
                results.append(dict(idx=i, status='skipped', reason='run cut short after a confirmed violation', stats=None, cex=[],
                                    witnesses=[], wall=0.0))
    results.sort(key=lambda r: r['idx'])

    if a.slow:
        for r in sorted(results, key=lambda r: -r['wall'])[:8]:
            print('SLOW %.1fs paths=%s %s %s' % (r['wall'], r['stats'] and r['stats']['paths'], insts[r['idx']]['h'], json.dumps(insts[r['idx']].get('p', {}))[:150]))
    total = core.Stats()
    errors, inconclusive, candidates = [], [], []
    samples = []
    per_h = {}
    for r in results:
        inst = insts[r['idx']]
        if r['stats']:
            total.merge(r['stats'])
            ph = per_h.setdefault(inst['h'], dict(instances=0, paths=0, queries=0, solver_s=0.0, wall_s=0.0))
            ph['instances'] += 1
            ph['paths'] += r['stats']['paths']
            ph['queries'] += r['stats']['queries']
            ph['solver_s'] = round(ph['solver_s'] + r['stats']['solver_s'], 3)
            ph['wall_s'] = round(ph['wall_s'] + r['wall'], 3)
        if r['status'] == 'error':
            errors.append((inst, r['reason']))
        elif r['status'] == 'inconclusive':
            inconclusive.append((inst, r['reason']))
        elif r['status'] == 'skipped':
            pass
        for c in r['cex']:
            candidates.append((inst, c))
        for w in r['witnesses']:
            samples.append((inst, w))

    violations, known_hits, discrepancies = [], [], []
    seen = set()
    for inst, c in candidates:
        key = (inst['h'], c['label'], json.dumps(c['inputs'], sort_keys=True))
        if key in seen:
            continue
        seen.add(key)
        kind, path, rr, hit = triage(inst, c)
        if kind == 'violation':
            violations.append((path, c, rr))
        elif kind == 'known':
            known_hits.append((hit, path))
        else:
            discrepancies.append((path, c, rr))

    # validate a sample of passing-path witnesses against the real import
    validated = 0
    wfail = []
    if samples:
        batch = [dict(property=prop_id, harness=inst['h'], params=inst.get('p', {}), inputs=w) for inst, w in samples[:400]]
        bpath = os.path.join(VERIF, 'replays', prop_id, '_witness_batch.json')
        with open(bpath, 'w') as f:
            json.dump(dict(batch=batch), f)
        rr = run_replay(bpath)
        if 'error' in rr:
            errors.append((dict(h='witness-replay'), rr['error']))
        else:
            for case, res in zip(batch, rr['results']):
                if res.get('failed') or res.get('exception') or res.get('harness_bug'):
                    wfail.append((case, res))
                else:
                    validated += 1
        try:
            os.remove(bpath)
        except OSError:
            pass
    for case, res in wfail:
        # a passing symbolic path whose concrete twin fails = engine/stub discrepancy
        discrepancies.append(('witness', dict(label='witness', inputs=case['inputs'], detail=case['harness']), res))

    wall = time.time() - t0
    for k, path in known_hits:
        pass
    printed = set()
    for k, path in known_hits:
        if k['id'] in printed:
            continue
        printed.add(k['id'])
        print('KNOWN-FINDING: property=%s %s' % (prop_id, k['summary']))
    for path, c, rr in violations:
        print('VIOLATION property=%s replay=%s' % (prop_id, path))
        print('  label=%s detail=%s replay=%s' % (c['label'], c['detail'], json.dumps(rr)[:300]))
    for path, c, rr in discrepancies:
        sys.stderr.write('ENGINE-DISCREPANCY %s label=%s detail=%s inputs=%s replay=%s\n' % (
            path, c['label'], c['detail'], json.dumps(c['inputs'])[:400], json.dumps(rr)[:300]))
    for inst, reason in errors:
        sys.stderr.write('ENGINE-ERROR %s %s: %s\n' % (inst['h'], json.dumps(inst.get('p', {}))[:200], reason))
    for inst, reason in inconclusive:
        sys.stderr.write('INCONCLUSIVE %s %s: %s\n' % (inst['h'], json.dumps(inst.get('p', {}))[:200], reason))

    never = [l for l in getattr(prop, 'EXPECTED_LABELS', []) if l not in total.labels]
    if never and not a.only:
        sys.stderr.write('ENGINE-ERROR labels never reached: %s\n' % never)

    if not a.no_evidence:
        ev = dict(
            property_id=prop_id, tier=a.tier, seed=seed, level='model_checking',
            coverage=dict(
                states=total.paths, transitions=max(total.branches, 1) if total.paths else 0,
                traces_validated_against_impl=validated,
                samples=[dict(harness=i['h'], params=i.get('p', {}), witness_inputs=w) for i, w in samples[:6]] or
                        [dict(harness=i['h'], params=i.get('p', {})) for i in insts[:6]],
                obligations=total.obligations, discharged=total.discharged,
                queries=total.queries, solver_s=round(total.solver_s, 3),
                instances=len(insts), paths_aborted_by_assume=total.aborted,
                concretizations=total.concretizations,
                obligations_by_label=total.labels, per_harness=per_h,
                functions_encoded=getattr(prop, 'FUNCTIONS', []),
                bounds=prop.bounds(a.tier) if hasattr(prop, 'bounds') else getattr(prop, 'BOUNDS', {}),
                outside_claim=getattr(prop, 'OUTSIDE', []),
                stubs=getattr(prop, 'STUBS', []),
                ast_rewrites=loader.REWRITES,
                engine='symx: real /repo source executed on z3-backed proxies; z3 %s' % _z3v(),
                sources_encoded_from=sorted(set(_lib().sources.values())),
                known_findings_hit=[k['id'] for k, _ in known_hits],
                instances_cut_short_after_confirmed_violation=len(cut_short),
                exhaustive=False,
                explanation='Each state is one symbolic path (an equivalence class of inputs); every obligation on '
                            'every path was decided by the SMT solver for all values of the symbolic inputs within the bounds.',
            ),
            assumptions=getattr(prop, 'ASSUMPTIONS', []),
            wall_s=round(wall, 3),
            violations=len(violations),
        )
        if total.paths == 0:
            ev['coverage']['states'] = 1 if False else 0
        os.makedirs(os.path.join(VERIF, 'evidence'), exist_ok=True)
        with open(os.path.join(VERIF, 'evidence', prop_id + '.json'), 'w') as f:
            json.dump(ev, f, indent=1, sort_keys=True, default=str)

    print('%s %s: instances=%d paths=%d obligations=%d discharged=%d queries=%d solver_s=%.1f validated=%d wall=%.1fs' % (
        prop_id, a.tier, len(insts), total.paths, total.obligations, total.discharged, total.queries,
        total.solver_s, validated, wall))
    if violations:
        sys.exit(1)
    if errors or inconclusive or discrepancies or (never and not a.only):
        sys.exit(2)
    sys.exit(0)


def _z3v():
    import z3
    return z3.get_version_string()


if __name__ == '__main__':
    main()
