"""Environment stubs: struct, io, hashlib, binascii, base64, socket, time, random, math, os.

Every stub has a concrete fast path that defers to the real module, and a symbolic path that
is an exact model (struct/binascii/base64) or an uninterpreted function with congruence
(hashes, inet_ntop/pton).
"""
import types
import struct as _struct
import hashlib as _hashlib
import binascii as _binascii
import base64 as _base64
import socket as _socket
import itertools
import z3

from .core import (SymInt, SymBool, EngineLeak, cur, mkbool, bexpr, s_ite, s_and, s_or, s_not)
from .vtypes import (VBytes, VByteArray, VStr, VBytesIO, _items, _is_byteslike, hex_pairs_to_bytes,
                     _check_byte)

_rint = int


def _real_or_none(b):
    if isinstance(b, (bytes, bytearray)):
        return bytes(b)
    if isinstance(b, (VBytes, VByteArray)) and b.is_concrete():
        return bytes(b._d)
    return None


def _fmt_str(f):
    if isinstance(f, (VBytes, VByteArray)):
        return f.real().decode('ascii')
    if isinstance(f, bytes):
        return f.decode('ascii')
    if isinstance(f, VStr):
        return f.real()
    return f


# ------------------------------------------------------------------------------------------
# struct

_SIZES = {'b': (1, True), 'B': (1, False), 'h': (2, True), 'H': (2, False),
          'i': (4, True), 'I': (4, False), 'l': (4, True), 'L': (4, False),
          'q': (8, True), 'Q': (8, False), 'c': (1, None), '?': (1, False)}


def _parse_fmt(f):
    f = _fmt_str(f)
    order = 'little'
    if f and f[0] in '<>=!@':
        if f[0] in '>!':
            order = 'big'
        if f[0] == '@':
            raise EngineLeak("native struct alignment")
        f = f[1:]
    codes = []
    num = ''
    for ch in f:
        if ch.isdigit():
            num += ch
            continue
        if ch.isspace():
            continue
        if ch in 'sx':
            # 'Ns' = one bytes item of N bytes; 'Nx' = N pad bytes
            codes.append((ch, _rint(num) if num else 1))
            num = ''
            continue
        if ch not in _SIZES:
            raise EngineLeak("struct format char %r" % ch)
        codes.extend([ch] * (_rint(num) if num else 1))
        num = ''
    return order, codes


def _csize(c):
    return c[1] if isinstance(c, tuple) else _SIZES[c][0]


class _StructError(_struct.error):
    pass


def s_calcsize(f):
    return sum(_csize(c) for c in _parse_fmt(f)[1])


def s_pack(f, *vals):
    order, codes = _parse_fmt(f)
    nvals = len([c for c in codes if not (isinstance(c, tuple) and c[0] == 'x')])
    if len(vals) != nvals:
        raise _struct.error("pack expected %d items for packing (got %d)" % (nvals, len(vals)))
    out = []
    vals = list(vals)
    for c in codes:
        if isinstance(c, tuple):
            if c[0] == 'x':
                out.extend([0] * c[1])
                continue
            v = vals.pop(0)
            if not _is_byteslike(v):
                raise _struct.error("argument for 's' must be a bytes object")
            it = list(_items(v))[:c[1]]
            out.extend(it + [0] * (c[1] - len(it)))
            continue
        v = vals.pop(0)
        size, signed = _SIZES[c]
        if c == 'c':
            if not _is_byteslike(v) or len(v) != 1:
                raise _struct.error("char format requires a bytes object of length 1")
            out.extend(_items(v))
            continue
        if isinstance(v, SymBool):
            v = v.as_int()
        if isinstance(v, SymInt):
            lo = -(1 << (8 * size - 1)) if signed else 0
            hi = (1 << (8 * size - 1)) - 1 if signed else (1 << (8 * size)) - 1
            ok = s_and(v >= lo, v <= hi)
            if not (ok if isinstance(ok, bool) else cur().branch(ok.e)):
                raise _struct.error("'%s' format requires %d <= number <= %d" % (c, lo, hi))
            if v.lia:
                from .core import lia_digits
                u = v if not signed else s_ite(v < 0, v + (1 << (8 * size)), v)
                items = lia_digits(u, 256, size)
            else:
                e = v.tw(8 * size)
                items = [SymInt.from_bv(z3.Extract(8 * i + 7, 8 * i, e), 0, 255, False) for i in range(size)]
            if order == 'big':
                items.reverse()
            out.extend(items)
            continue
        if isinstance(v, bool):
            v = _rint(v)
        if not isinstance(v, _rint):
            if hasattr(v, '__index__'):
                v = v.__index__()
            else:
                raise _struct.error("required argument is not an integer")
        out.extend(_struct.pack(('<' if order == 'little' else '>') + c, v))
    return VBytes._mk(out)


def s_unpack(f, data):
    order, codes = _parse_fmt(f)
    d = _items(data)
    total = sum(_csize(c) for c in codes)
    if len(d) != total:
        raise _struct.error("unpack requires a buffer of %d bytes" % total)
    res = []
    p = 0
    for c in codes:
        if isinstance(c, tuple):
            if c[0] == 's':
                res.append(VBytes._mk(d[p:p + c[1]]))
            p += c[1]
            continue
        size, signed = _SIZES[c]
        chunk = d[p:p + size]
        p += size
        if c == 'c':
            res.append(VBytes._mk(chunk))
            continue
        if all(isinstance(x, _rint) for x in chunk):
            res.append(_struct.unpack(('<' if order == 'little' else '>') + c, bytes(chunk))[0])
            continue
        if order == 'big':
            chunk = chunk[::-1]
        res.append(bytes_to_int_le(chunk, signed))
    return tuple(res)


def bytes_to_int_le(chunk, signed=False):
    """little-endian list of byte items -> int-like"""
    if any(isinstance(x, SymInt) and x.lia for x in chunk):
        r = 0
        for i, x in enumerate(chunk):
            r = r + x * (1 << (8 * i))
        if signed:
            n = len(chunk)
            r = s_ite(r >= (1 << (8 * n - 1)), r - (1 << (8 * n)), r)
        return r
    if all(isinstance(x, _rint) for x in chunk):
        return _rint.from_bytes(bytes(chunk), 'little', signed=bool(signed))
    parts = []
    for x in reversed(chunk):
        parts.append(x.tw(8) if isinstance(x, SymInt) else z3.BitVecVal(x, 8))
    e = z3.Concat(*parts) if len(parts) > 1 else parts[0]
    n = len(chunk)
    if signed:
        return SymInt.from_bv(e, -(1 << (8 * n - 1)), (1 << (8 * n - 1)) - 1, True)
    lo = 0
    hi = 0
    for i, x in enumerate(chunk):
        hi += (x.hi if isinstance(x, SymInt) else x) << (8 * i)
        lo += (x.lo if isinstance(x, SymInt) else x) << (8 * i)
    return SymInt.from_bv(e, lo, hi, False)


class s_Struct(object):
    def __init__(self, f):
        self.format = f
        self.size = s_calcsize(f)

    def pack(self, *v):
        return s_pack(self.format, *v)

    def unpack(self, d):
        return s_unpack(self.format, d)


def make_struct():
    m = types.ModuleType('struct')
    m.pack = s_pack
    m.unpack = s_unpack
    m.calcsize = s_calcsize
    m.Struct = s_Struct
    m.error = _struct.error
    return m


# ------------------------------------------------------------------------------------------
# hashes as uninterpreted functions


class HashUF(object):
    """per-exploration registry of hash applications"""

    def __init__(self):
        self.funcs = {}

    def func(self, name, nbytes, outbytes):
        k = (name, nbytes)
        f = self.funcs.get(k)
        if f is None:
            dom = z3.BitVecSort(8 * nbytes) if nbytes else z3.BitVecSort(1)
            f = z3.Function('%s_%d' % (name, nbytes), dom, z3.BitVecSort(8 * outbytes))
            self.funcs[k] = f
        return f


_huf = HashUF()
_REAL = {
    'sha256': lambda b: _hashlib.sha256(b).digest(),
    'sha1': lambda b: _hashlib.sha1(b).digest(),
    'ripemd160': None,   # filled by loader with the library's own pure-python implementation (concrete)
}
_OUT = {'sha256': 32, 'sha1': 20, 'ripemd160': 20}
TABLE_BITS = 12
_table_cache = {}


def _free_vars(e, acc):
    todo = [e]
    seen = set()
    while todo:
        t = todo.pop()
        if t.get_id() in seen:
            continue
        seen.add(t.get_id())
        if z3.is_const(t):
            if t.decl().kind() == z3.Z3_OP_UNINTERPRETED:
                acc[t.get_id()] = t
        else:
            if z3.is_app(t) and t.decl().kind() == z3.Z3_OP_UNINTERPRETED and t.num_args() > 0:
                acc['uf'] = True
            todo.extend(t.children())


def hash_apply(name, data):
    """digest of a (possibly symbolic) byte string; returns VBytes carrying .preimage"""
    d = _items(data)
    real = _REAL[name]
    if all(isinstance(x, _rint) for x in d):
        out = VBytes(real(bytes(d)))
        out.preimage = (name, VBytes._mk(list(d)))
        st = cur_state()
        if st is not None and len(d) <= 4096:
            st.setdefault('hash_conc', {}).setdefault((name, len(d)), []).append((bytes(d), out.real()))
            _link_concrete(st, name, len(d), bytes(d), out.real())
        return out
    st = cur_state()
    nout = _OUT[name]
    parts = []
    lia = False
    for x in d:
        if isinstance(x, SymInt):
            if x.lia:
                lia = True
                parts.append(z3.Int2BV(x.e, 8))
            else:
                parts.append(x.tw(8))
        else:
            parts.append(z3.BitVecVal(x, 8))
    inp = z3.Concat(*parts) if len(parts) > 1 else parts[0]
    # small-domain exact expansion
    if not lia:
        ck = (name, inp.get_id())
        hit = _table_cache.get(ck)
        if hit is not None and hit[0].eq(inp):
            out = VBytes._mk(list(hit[1]))
            out.preimage = (name, VBytes._mk(list(d)))
            _note_table(st, name, len(d), inp, out._d)
            return out
        acc = {}
        _free_vars(inp, acc)
        if 'uf' not in acc:
            vs = [v for k, v in acc.items()]
            bits = sum(v.size() for v in vs if z3.is_bv(v))
            if all(z3.is_bv(v) for v in vs) and bits <= TABLE_BITS:
                r = _table_expand(name, d, inp, vs, nout)
                if len(_table_cache) > 5000:
                    _table_cache.clear()
                _table_cache[ck] = (inp, list(r._d))
                _note_table(st, name, len(d), inp, r._d)
                return r
    f = _huf.func(name, len(d), nout)
    oe = f(inp)
    key = (name, len(d))
    first = key not in st.setdefault('hash_sym', set())
    st['hash_sym'].add(key)
    if first:
        for (ci, co) in st.get('hash_conc', {}).get(key, []):
            cur().add(f(z3.BitVecVal(_rint.from_bytes(ci, 'big'), 8 * len(ci))) ==
                      z3.BitVecVal(_rint.from_bytes(co, 'big'), 8 * nout))
        # applications of the same arity that were expanded into exact tables: tie them to the function symbol
        for (ti, to) in st.get('hash_tbl', {}).get(key, []):
            cur().add(f(ti) == to)
    if st.get('collision_free'):
        # stated assumption: the hash has no collisions among the applications that occur on this path
        apps = st.setdefault('hash_apps', {}).setdefault(name, [])
        for (n2, inp2, oe2) in apps:
            if n2 != len(d):
                cur().add(oe != oe2)
            elif not inp.eq(inp2):
                cur().add(z3.Implies(inp != inp2, oe != oe2))
        for (klen, lst) in [(k[1], v) for k, v in st.get('hash_conc', {}).items() if k[0] == name]:
            for (ci, co) in lst[-8:]:
                cv = z3.BitVecVal(_rint.from_bytes(co, 'big'), 8 * nout)
                if klen != len(d):
                    cur().add(oe != cv)
                else:
                    cur().add(z3.Implies(inp != z3.BitVecVal(_rint.from_bytes(ci, 'big'), 8 * klen), oe != cv))
        apps.append((len(d), inp, oe))
    items = []
    for i in range(nout):
        hi = 8 * (nout - i) - 1
        items.append(SymInt.from_bv(z3.Extract(hi, hi - 7, oe), 0, 255, False))
    out = VBytes._mk(items)
    out.preimage = (name, VBytes._mk(list(d)))
    return out


def _note_table(st, name, n, inp, items):
    """an application decided by exact table expansion; if uninterpreted applications of the same arity exist on this path
    (or appear later) the two must agree on equal inputs"""
    if st is None or n == 0:
        return
    parts = [(x.tw(8) if isinstance(x, SymInt) else z3.BitVecVal(x, 8)) for x in items]
    out = z3.Concat(*parts) if len(parts) > 1 else parts[0]
    lst = st.setdefault('hash_tbl', {}).setdefault((name, n), [])
    for (ti, _) in lst:
        if ti.eq(inp):
            return
    lst.append((inp, out))
    if (name, n) in st.get('hash_sym', ()):
        cur().add(_huf.func(name, n, _OUT[name])(inp) == out)


def _link_concrete(st, name, n, ci, co):
    key = (name, n)
    if key in st.get('hash_sym', ()):  # symbolic applications of this arity already exist
        f = _huf.func(name, n, _OUT[name])
        if n:
            cur().add(f(z3.BitVecVal(_rint.from_bytes(ci, 'big'), 8 * n)) ==
                      z3.BitVecVal(_rint.from_bytes(co, 'big'), 8 * _OUT[name]))


def _table_expand(name, d, inp, vs, nout):
    real = _REAL[name]
    vs = sorted(vs, key=lambda v: str(v))
    ranges = [range(1 << v.size()) for v in vs]
    rows = []
    m = cur().get_model  # not used; enumeration is exhaustive over the tiny domain
    for combo in itertools.product(*ranges):
        sub = [(v, z3.BitVecVal(c, v.size())) for v, c in zip(vs, combo)]
        val = z3.simplify(z3.substitute(inp, *sub))
        iv = val.as_long()
        ib = iv.to_bytes(len(d), 'big')
        cond = z3.And(*[v == z3.BitVecVal(c, v.size()) for v, c in zip(vs, combo)]) if vs else z3.BoolVal(True)
        rows.append((cond, real(ib)))
    items = []
    for i in range(nout):
        e = z3.BitVecVal(rows[-1][1][i], 8)
        for cond, dig in reversed(rows[:-1]):
            e = z3.If(cond, z3.BitVecVal(dig[i], 8), e)
        items.append(SymInt.from_bv(z3.simplify(e), 0, 255, False))
    out = VBytes._mk(items)
    out.preimage = (name, VBytes._mk(list(d)))
    return out


def cur_state():
    from . import core
    if core._cur is None:
        return None
    return core._cur.path_state


class _HashObj(object):
    def __init__(self, name, data=b''):
        self.name = name
        self._buf = list(_items(data))

    def update(self, data):
        self._buf.extend(_items(data))

    def digest(self):
        return hash_apply(self.name, VBytes._mk(list(self._buf)))

    def hexdigest(self):
        return hexlify_v(self.digest()).decode('ascii')

    def copy(self):
        h = _HashObj(self.name)
        h._buf = list(self._buf)
        return h


def make_hashlib():
    m = types.ModuleType('hashlib')
    m.sha256 = lambda data=b'': _HashObj('sha256', data)
    m.sha1 = lambda data=b'': _HashObj('sha1', data)

    def new(name, data=b''):
        if name not in _OUT:
            raise EngineLeak("hashlib.new(%r)" % name)
        return _HashObj(name, data)
    m.new = new
    return m


# ------------------------------------------------------------------------------------------
# binascii / base64

def hexlify_v(b):
    d = _items(b)
    out = []
    for x in d:
        if isinstance(x, _rint):
            out.extend(('%02x' % x).encode())
        else:
            h = (x // 16) if x.lia else (x >> 4)
            l = (x % 16) if x.lia else (x & 15)
            ch = s_ite(h < 10, h + 48, h + 87)
            cl = s_ite(l < 10, l + 48, l + 87)
            if isinstance(ch, SymInt):
                ch.tag = ('hexb', x, 1)
            if isinstance(cl, SymInt):
                cl.tag = ('hexb', x, 0)
            out.extend([ch, cl])
    return VBytes._mk(out)


def unhexlify_v(h):
    if isinstance(h, (str, VStr)):
        d = VStr(h)._d
    else:
        d = _items(h)
    if len(d) % 2:
        raise _binascii.Error("Odd-length string")
    if all(isinstance(x, _rint) for x in d):
        try:
            return VBytes(_binascii.unhexlify(bytes(d)))
        except ValueError as e:
            raise _binascii.Error(str(e))
    try:
        return VBytes._mk(hex_pairs_to_bytes(d))
    except ValueError:
        raise _binascii.Error("Non-hexadecimal digit found")


def make_binascii():
    m = types.ModuleType('binascii')
    m.hexlify = hexlify_v
    m.unhexlify = unhexlify_v
    m.b2a_hex = hexlify_v
    m.a2b_hex = unhexlify_v
    m.Error = _binascii.Error
    return m


_B64 = 'ABCDEFGHIJKLMNOPQRSTUVWXYZabcdefghijklmnopqrstuvwxyz0123456789+/'


def _b64char(v):
    if isinstance(v, _rint):
        return ord(_B64[v])
    r = s_ite(v < 26, v + 65, s_ite(v < 52, v + 71, s_ite(v < 62, v - 4, s_ite(v == 62, 43, 47))))
    if isinstance(r, SymInt):
        r.tag = ('b64', v)
    return r


def b64encode_v(b):
    r = _real_or_none(b)
    if r is not None:
        return VBytes(_base64.b64encode(r))
    d = _items(b)
    out = []
    for k in range(0, len(d), 3):
        c = d[k:k + 3]
        n = len(c)
        c = c + [0] * (3 - n)
        v0 = c[0] >> 2
        v1 = ((c[0] & 3) << 4) | (c[1] >> 4)
        v2 = ((c[1] & 15) << 2) | (c[2] >> 6)
        v3 = c[2] & 63
        q = [_b64char(v0), _b64char(v1), _b64char(v2) if n > 1 else 61, _b64char(v3) if n > 2 else 61]
        out.extend(q)
    return VBytes._mk(out)


def _b64val(ch):
    """-> (six-bit value, validity condition) without forking"""
    if isinstance(ch, _rint):
        i = _B64.find(chr(ch))
        return (max(i, 0), i >= 0)
    if ch.tag is not None and ch.tag[0] == 'b64':
        return (ch.tag[1], True)
    up = s_and(ch >= 65, ch <= 90)
    lo = s_and(ch >= 97, ch <= 122)
    dg = s_and(ch >= 48, ch <= 57)
    val = s_ite(up, ch - 65, s_ite(lo, ch - 71, s_ite(dg, ch + 4, s_ite(ch == 43, 62, 63))))
    return (val, s_or(up, lo, dg, ch == 43, ch == 47))


def b64decode_v(s):
    if isinstance(s, (str, VStr)):
        s = VStr(s).encode('ascii')
    r = _real_or_none(s)
    if r is not None:
        return VBytes(_base64.b64decode(r))
    d = _items(s)
    if len(d) % 4:
        raise _binascii.Error("Incorrect padding")
    out = []
    oks = []
    for k in range(0, len(d), 4):
        q = d[k:k + 4]
        pad = 0
        if isinstance(q[3], _rint) and q[3] == 61:
            pad = 1
            if isinstance(q[2], _rint) and q[2] == 61:
                pad = 2
        vals = []
        for ch in q[:4 - pad]:
            v, ok = _b64val(ch)
            vals.append(v)
            oks.append(ok)
        vals = vals + [0] * pad
        b0 = (vals[0] << 2) | (vals[1] >> 4)
        b1 = ((vals[1] & 15) << 4) | (vals[2] >> 2)
        b2 = ((vals[2] & 3) << 6) | vals[3]
        out.extend([b0, b1, b2][:3 - pad])
    allok = s_and(*oks) if oks else True
    if not (allok if isinstance(allok, bool) else cur().branch(allok.e)):
        raise _binascii.Error("Non-base64 digit found")
    return VBytes._mk(out)


def make_base64():
    m = types.ModuleType('base64')
    m.b64encode = b64encode_v
    m.b64decode = b64decode_v
    return m


# ------------------------------------------------------------------------------------------
# io / socket / misc


def make_io():
    m = types.ModuleType('io')
    m.BytesIO = VBytesIO
    import io as _io
    m.StringIO = _io.StringIO
    return m


class IPText(VStr):
    """opaque text form of a symbolic packed address (inet_ntop result)"""

    def __init__(self, family, packed):
        self._d = []
        self.family = family
        self.packed = packed

    def is_concrete(self):
        return False

    def __len__(self):
        raise EngineLeak("len() of symbolic ip text")

    def __contains__(self, x):
        if x == ':':
            return self.family == _socket.AF_INET6
        raise EngineLeak("substring test on symbolic ip text")

    def __eq__(self, o):
        if isinstance(o, IPText):
            if o.family != self.family:
                return False
            return self.packed == o.packed
        return NotImplemented

    def __ne__(self, o):
        r = self.__eq__(o)
        return r if r is NotImplemented else s_not(r)

    __hash__ = VStr.__hash__

    def __repr__(self):
        return 'IPText(%r)' % (self.packed,)


def make_socket():
    m = types.ModuleType('socket')
    m.AF_INET = _socket.AF_INET
    m.AF_INET6 = _socket.AF_INET6
    m.error = _socket.error

    def inet_ntop(fam, packed):
        r = _real_or_none(packed)
        if r is not None:
            return _socket.inet_ntop(fam, r)
        if len(packed) != (4 if fam == _socket.AF_INET else 16):
            raise ValueError("invalid length of packed IP address string")
        return IPText(fam, VBytes(packed))

    def inet_pton(fam, text):
        if isinstance(text, IPText):
            if text.family != fam:
                raise OSError("illegal IP address string passed to inet_pton")
            return text.packed
        if isinstance(text, VStr):
            text = text.real()
        return VBytes(_socket.inet_pton(fam, text))
    m.inet_ntop = inet_ntop
    m.inet_pton = inet_pton
    return m


def make_time():
    import time as _time
    m = types.ModuleType('time')
    for k in ('sleep', 'ctime', 'strftime', 'gmtime', 'localtime'):
        setattr(m, k, getattr(_time, k))

    def time():
        st = cur_state()
        if st is not None and 'now' in st:
            return st['now']
        return 1700000000.0
    m.time = time
    return m


def make_random():
    import random as _random
    m = types.ModuleType('random')

    def getrandbits(k):
        st = cur_state()
        if st is not None and 'randbits' in st:
            return st['randbits'](k)
        return 0
    m.getrandbits = getrandbits
    m.random = _random.random
    return m


def make_math():
    import math as _math
    m = types.ModuleType('math')
    for k in dir(_math):
        if not k.startswith('_'):
            setattr(m, k, getattr(_math, k))

    def log(x, *a):
        st = cur_state()
        if st is not None and st.get('log_value') is not None and not a:
            return st['log_value']
        if st is not None and st.get('log_sym') and not a:
            from . import symfloat
            v = z3.FP(cur().fresh_name('logv'), symfloat.F64)
            cur().add(z3.And(z3.fpLT(v, z3.FPVal(0.0, symfloat.F64)), z3.Not(z3.fpIsInf(v)), z3.Not(z3.fpIsNaN(v))))
            cur().model = None
            st.setdefault('log_vars', []).append(v)
            return symfloat.SymFloat(v)
        return _math.log(x, *a)
    m.log = log
    return m


# ------------------------------------------------------------------------------------------
# json / decimal (C19): the request body is captured as a value tree; the reply is a scripted value tree whose
# fractional numbers are WireDecimal(m, scale) = the decimal text m * 10^-scale.  loads() honours parse_float.


class JsonDoc(object):
    def __init__(self, value):
        self.value = value

    def __repr__(self):
        return 'JsonDoc(%r)' % (self.value,)


class WireDecimal(object):
    def __init__(self, m, scale):
        self.m, self.scale = m, scale


class WireText(object):
    """body of an HTTP reply: .tree is the JSON value it denotes (or None for a body that is not JSON)"""

    def __init__(self, tree, valid=True):
        self.tree, self.valid = tree, valid

    def decode(self, *a):
        return self

    def __len__(self):
        return 64

    def __getitem__(self, i):
        return '<body>'


class _DecimalStub(object):
    """marker for decimal.Decimal (only ever used as parse_float)"""

    def __new__(cls, x=0):
        raise EngineLeak("decimal.Decimal(...) construction is not modelled")


def _materialize(t, parse_float):
    from . import symfloat
    if isinstance(t, WireDecimal):
        if parse_float is _DecimalStub:
            return symfloat.SymDecimal(t.m, t.scale)
        if parse_float is float or parse_float is None:
            # correctly rounded decimal -> double: m and 10^scale are exact doubles here, IEEE division is correctly rounded
            den = symfloat.SymFloat(z3.FPVal(float(10 ** t.scale), symfloat.F64))
            return symfloat.to_float(t.m) / den if not isinstance(t.m, _rint) else float(t.m) / (10 ** t.scale)
        raise EngineLeak("json.loads with an unknown parse_float")
    if isinstance(t, dict):
        return dict((k, _materialize(v, parse_float)) for k, v in t.items())
    if isinstance(t, (list, tuple)):
        return [_materialize(v, parse_float) for v in t]
    return t


def make_json():
    import json as _json
    m = types.ModuleType('json')

    def dumps(obj, **kw):
        return JsonDoc(obj)

    def loads(text, parse_float=None, **kw):
        if isinstance(text, WireText):
            if not text.valid:
                raise ValueError("Expecting value")
            return _materialize(text.tree, parse_float)
        return _json.loads(text, parse_float=parse_float, **kw)
    m.dumps, m.loads = dumps, loads
    m.JSONDecodeError = _json.JSONDecodeError
    return m


def make_decimal():
    m = types.ModuleType('decimal')
    m.Decimal = _DecimalStub
    return m
