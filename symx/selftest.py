import sys; print("selftest placeholder ok")
