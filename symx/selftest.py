"""Concrete differential self-test of the engine (MANIFEST.setup_cmd, ~15 s).

The shadow-loaded library (AST pass + stubs + proxies, no symbolic values) is run over the repository's own test
vectors and must agree with the plain import of /repo on every one of them (Serval-style validation of the
interpreter with the existing suite).  Any difference is an engine error (exit 2).
"""
import json
import os
import sys
import time

VERIF = os.path.dirname(os.path.dirname(os.path.abspath(__file__)))
sys.path.insert(0, VERIF)
from symx import loader, vtypes  # noqa: E402

REPO = loader.REPO
sys.path.insert(0, REPO)
DATA = os.path.join(REPO, 'bitcoin', 'tests', 'data')


def main():
    t0 = time.time()
    import bitcoin
    import bitcoin.core as rc
    import bitcoin.core.script as rs
    import bitcoin.core.scripteval as rse
    import bitcoin.base58 as rb58
    import bitcoin.segwit_addr as rsa
    import bitcoin.bloom as rbl
    import bitcoin.core.serialize as rser
    import bitcoin.wallet as rw
    from bitcoin.tests import test_scripteval as tse
    L = loader.Lib()
    sc, ss, sse = L['bitcoin.core'], L['bitcoin.core.script'], L['bitcoin.core.scripteval']
    VB = vtypes.VBytes
    n = dict(cases=0)
    bad = []

    def same(tag, a, b):
        n['cases'] += 1
        n[tag.split(':')[0]] = n.get(tag.split(':')[0], 0) + 1
        if a != b:
            bad.append((tag, repr(a)[:120], repr(b)[:120]))

    def raw(x):
        return bytes(x._d) if isinstance(x, (vtypes.VBytes, vtypes.VByteArray)) else x

    # transactions: (de)serialisation, identifiers, script verification
    for name in ('tx_valid.json', 'tx_invalid.json'):
        for case in json.load(open(os.path.join(DATA, name))):
            if len(case) == 1:
                continue
            prevouts, txhex, flags = case[0], case[1], case[2]
            txb = bytes.fromhex(txhex)
            try:
                rt = rc.CTransaction.deserialize(txb)
            except Exception as e:
                rt = type(e).__name__
            try:
                st = sc.CTransaction.deserialize(VB(txb))
            except Exception as e:
                st = type(e).__name__
            if isinstance(rt, str) or isinstance(st, str):
                same(name + ':deser', rt if isinstance(rt, str) else 'ok', st if isinstance(st, str) else 'ok')
                continue
            same(name + ':ser', rt.serialize(), raw(st.serialize()))
            same(name + ':txid', rt.GetTxid(), raw(st.GetTxid()))
            pm = {}
            for po in prevouts:
                pm[(po[0], po[1] & 0xffffffff)] = tse.parse_script(po[2])
            fl = ['P2SH'] if flags else []
            rfl = set(rse.SCRIPT_VERIFY_FLAGS_BY_NAME[f] for f in fl)
            sfl = set(sse.SCRIPT_VERIFY_FLAGS_BY_NAME[f] for f in fl)
            same(name + ':checktx', _safe(lambda: rc.CheckTransaction(rt)), _safe(lambda: sc.CheckTransaction(st)))
            for i, txin in enumerate(rt.vin):
                spk = pm.get((rc.b2lx(txin.prevout.hash), txin.prevout.n))
                if spk is None:
                    continue
                try:
                    rse.VerifyScript(txin.scriptSig, spk, rt, i, flags=rfl)
                    r1 = 'ok'
                except rc.ValidationError as e:
                    r1 = 'ValidationError'
                except Exception as e:
                    r1 = type(e).__name__
                try:
                    sse.VerifyScript(st.vin[i].scriptSig, ss.CScript(VB(bytes(spk))), st, i, flags=sfl)
                    r2 = 'ok'
                except sc.ValidationError as e:
                    r2 = 'ValidationError'
                except Exception as e:
                    r2 = type(e).__name__
                same(name + ':verify', r1, r2)
    # scripts
    dummy_r = rc.CTransaction([rc.CTxIn()], [rc.CTxOut(0, rs.CScript())])
    dummy_s = sc.CTransaction([sc.CTxIn()], [sc.CTxOut(0, ss.CScript())])
    for name in ('script_valid.json', 'script_invalid.json'):
        for (ssig, spk, flagset, comment, case) in tse.load_test_vectors(name):
            names = [k for k, v in rse.SCRIPT_VERIFY_FLAGS_BY_NAME.items() if v in flagset]
            sfl = set(sse.SCRIPT_VERIFY_FLAGS_BY_NAME[k] for k in names)
            try:
                rse.VerifyScript(ssig, spk, dummy_r, 0, flags=flagset)
                r1 = 'ok'
            except rc.ValidationError:
                r1 = 'ValidationError'
            except Exception as e:
                r1 = type(e).__name__
            try:
                sse.VerifyScript(ss.CScript(VB(bytes(ssig))), ss.CScript(VB(bytes(spk))), dummy_s, 0, flags=sfl)
                r2 = 'ok'
            except sc.ValidationError:
                r2 = 'ValidationError'
            except Exception as e:
                r2 = type(e).__name__
            same(name, r1, r2)
            same(name + ':sigops', _safe(lambda: spk.GetSigOpCount(True)), _safe(lambda: ss.CScript(VB(bytes(spk))).GetSigOpCount(True)))
    # base58 / bech32
    sb58, ssa = L['bitcoin.base58'], L['bitcoin.segwit_addr']
    for hexs, text in json.load(open(os.path.join(DATA, 'base58_encode_decode.json'))):
        same('b58enc', rb58.encode(bytes.fromhex(hexs)), str(sb58.encode(VB(bytes.fromhex(hexs)))))
        same('b58dec', rb58.decode(text), raw(sb58.decode(text)))
    for hexs, text in json.load(open(os.path.join(DATA, 'bech32_encode_decode.json'))):
        for hrp in ('bc', 'tb'):
            a = rsa.decode(hrp, text)
            b = ssa.decode(hrp, text)
            same('bech32dec', (a[0], None if a[1] is None else list(a[1])), (b[0], None if b[1] is None else list(b[1])))
    for text in json.load(open(os.path.join(DATA, 'bech32_invalid.json'))):
        t = text if isinstance(text, str) else text[0]
        same('bech32inv', rsa.decode('bc', t), tuple(ssa.decode('bc', t)))
    # blocks
    for name in ('checkblock_valid.json', 'checkblock_invalid.json'):
        for case in json.load(open(os.path.join(DATA, name))):
            if len(case) != 5:
                continue
            (comment, fHeader, fCheckPoW, cur_time, blkhex) = case
            bb = bytes.fromhex(blkhex)
            if fHeader:
                rbk, sbk = rc.CBlockHeader.deserialize(bb), sc.CBlockHeader.deserialize(VB(bb))
                same(name + ':hash', rbk.GetHash(), raw(sbk.GetHash()))
                same(name + ':check', _safe(lambda: rc.CheckBlockHeader(rbk, fCheckPoW=fCheckPoW, cur_time=cur_time)),
                     _safe(lambda: sc.CheckBlockHeader(sbk, fCheckPoW=fCheckPoW, cur_time=cur_time)))
            else:
                rbk, sbk = rc.CBlock.deserialize(bb), sc.CBlock.deserialize(VB(bb))
                same(name + ':hash', rbk.GetHash(), raw(sbk.GetHash()))
                same(name + ':root', _safe(lambda: rbk.calc_merkle_root()), _safe(lambda: raw(sbk.calc_merkle_root())))
                same(name + ':ser', rbk.serialize(), raw(sbk.serialize()))
                same(name + ':check', _safe(lambda: rc.CheckBlock(rbk, fCheckPoW=fCheckPoW, cur_time=cur_time)),
                     _safe(lambda: sc.CheckBlock(sbk, fCheckPoW=fCheckPoW, cur_time=cur_time)))
    # bloom / compact / misc kernels on fixed values
    sbl, sser = L['bitcoin.bloom'], L['bitcoin.core.serialize']
    for seed, data in ((0, b''), (0xFBA4C795, b'\x00'), (1, b'abc'), (0xffffffff, bytes(range(40)))):
        same('murmur', rbl.MurmurHash3(seed, data), sbl.MurmurHash3(seed, VB(data)))
    for c in (0, 0x01003456, 0x04923456, 0x1d00ffff, 0x207fffff, 0xff123456, 0x1c800001):
        same('compact', rser.uint256_from_compact(c), sser.uint256_from_compact(c))
    for v in (0, 0x12, 0x80, 0x92340000, 2 ** 255, 2 ** 256 - 1):
        same('compact_enc', rser.compact_from_uint256(v), sser.compact_from_uint256(v))
    srip = L['bitcoin.core.contrib.ripemd160']
    import bitcoin.core.contrib.ripemd160 as rrip
    for m in (b'', b'abc', bytes(range(130))):
        same('ripemd160', rrip.ripemd160(m), raw(srip.ripemd160(VB(m))))
    # addresses
    sw = L['bitcoin.wallet']
    for a in ('1C7zdTfnkzmr13HfA2vNm5SJYRK6nEKyq8', '37k7toV1Nv4DfmQbmZ8KuZDQCYK9x5KpzP', 'bc1qw508d6qejxtdg4y5r3zarvary0c5xw7kv8f3t4'):
        same('addr', bytes(rw.CBitcoinAddress(a).to_scriptPubKey()), raw(sw.CBitcoinAddress(a).to_scriptPubKey()))
    dt = time.time() - t0
    print('symx selftest: %d cases compared between the shadow-loaded and the plain library in %.1fs, %d differences' % (n['cases'], dt, len(bad)))
    print('  by family:', {k: v for k, v in n.items() if k != 'cases'})
    for b in bad[:20]:
        print('  DIFF', b)
    sys.exit(2 if bad else 0)


def _safe(f):
    try:
        return f()
    except Exception as e:
        return type(e).__name__


if __name__ == '__main__':
    main()
