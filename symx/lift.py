"""Kernel lifting: turn the body of a loop of a library function into a step function of its live-in variables,
regenerated from /repo's current source on every run."""
import ast
from . import loader


class LiftError(Exception):
    pass


def lift_for_body(lib, modname, funcname, state_vars, item_var=None, extra_args=()):
    """function `funcname` must have the shape  <prelude>; for <item> in <iterable>: <body>; return ...
    Returns step(state..., item) -> new state tuple, executed in the shadow module's namespace (same AST pass)."""
    path = lib.sources[modname]
    tree = ast.parse(open(path).read(), path)
    fn = None
    for n in ast.walk(tree):
        if isinstance(n, ast.FunctionDef) and n.name == funcname:
            fn = n
            break
    if fn is None:
        raise LiftError("function %s not found" % funcname)
    loops = [s for s in fn.body if isinstance(s, ast.For)]
    if len(loops) != 1:
        raise LiftError("%s: expected exactly one top-level for loop" % funcname)
    loop = loops[0]
    if loop.orelse:
        raise LiftError("for-else not supported")
    if not isinstance(loop.target, ast.Name):
        raise LiftError("loop target must be a simple name")
    item = loop.target.id
    idx = fn.body.index(loop)
    prelude = [s for s in fn.body[:idx] if not (isinstance(s, ast.Expr) and isinstance(s.value, ast.Constant))]
    for s in loop.body:
        for sub in ast.walk(s):
            if isinstance(sub, (ast.Break, ast.Continue, ast.Return)) :
                raise LiftError("control flow out of the loop body is not supported")
    args = [ast.arg(arg=v) for v in state_vars] + [ast.arg(arg=item)]
    # prelude runs first (defines tables such as `generator`), then the state variables are overwritten by the arguments
    rebinding = [ast.Assign(targets=[ast.Name(id=v, ctx=ast.Store())], value=ast.Name(id='__arg_' + v, ctx=ast.Load()))
                 for v in state_vars]
    args = [ast.arg(arg=a) for a in extra_args] + [ast.arg(arg='__arg_' + v) for v in state_vars] + [ast.arg(arg=item)]
    ret = ast.Return(value=ast.Tuple(elts=[ast.Name(id=v, ctx=ast.Load()) for v in state_vars], ctx=ast.Load()))
    fdef = ast.FunctionDef(name='__step__', args=ast.arguments(posonlyargs=[], args=args, kwonlyargs=[], kw_defaults=[], defaults=[]),
                           body=prelude + rebinding + loop.body + [ret], decorator_list=[])
    mod = ast.Module(body=[fdef], type_ignores=[])
    ast.fix_missing_locations(mod)
    src = ast.unparse(mod)
    code = loader.transform(src, path + ':<lifted %s>' % funcname)
    ns = lib.modules[modname].__dict__
    tmp = {}
    exec(code, ns, tmp)
    after = fn.body[idx + 1:]
    # the statements after the loop as a function of the final state (and the extra arguments)
    fargs = [ast.arg(arg=a) for a in extra_args] + [ast.arg(arg=v) for v in state_vars]
    fin = ast.FunctionDef(name='__final__', args=ast.arguments(posonlyargs=[], args=fargs, kwonlyargs=[], kw_defaults=[], defaults=[]),
                          body=list(after) or [ast.Pass()], decorator_list=[])
    fmod = ast.Module(body=[fin], type_ignores=[])
    ast.fix_missing_locations(fmod)
    fcode = loader.transform(ast.unparse(fmod), path + ':<lifted tail %s>' % funcname)
    exec(fcode, ns, tmp)
    tmp['__step__'].final = tmp['__final__']
    return tmp['__step__'], dict(item=item, prelude=[ast.unparse(s) for s in prelude], after=[ast.unparse(s) for s in after],
                                 source=src)
