"""Shadow loader: executes /repo's bitcoin/**/*.py into a private module table with symbolic-aware
builtins, a small fixed AST pass and environment stubs.  The encoding is therefore regenerated
from the current working tree on every run.
"""
import ast
import builtins as _b
import copy
import os
import sys
import types

from . import core, vtypes, stubs
from .core import SymInt, SymBool, EngineLeak, cur, s_ite, s_or, s_and, s_not, mkbool
from .vtypes import VBytes, VByteArray, VStr, VBytesIO

REPO = os.environ.get('SYMX_REPO', '/repo')

REWRITES = [
    'bytes literal -> __B__(literal) (virtual byte string)',
    'int(x)/str(x)/float(x)/repr(x) call -> __vint__/__vstr__/__vfloat__/__vrepr__',
    '"fmt" % args / f-string -> __fmt__(fmt, args)',
    'a if c else b -> __ite__(c, lambda: a, lambda: b, simple)',
    'obj[idx] (load, non-slice) -> __getitem__(obj, idx)',
    'x in c / x not in c -> __contains__(c, x)',
    'const_str.method(...) and x.index/find/rfind/join/startswith/endswith/count(...) -> __cm__(receiver, "method", ...)',
    'int.from_bytes -> __intcls__.from_bytes',
]


# ------------------------------------------------------------------------------------------
# AST pass


class _Pass(ast.NodeTransformer):
    def __init__(self, shadowed):
        self.shadowed = shadowed

    def visit_Constant(self, node):
        if isinstance(node.value, bytes):
            return ast.copy_location(
                ast.Call(func=ast.Name(id='__B__', ctx=ast.Load()), args=[node], keywords=[]), node)
        return node

    def visit_JoinedStr(self, node):
        # f-string: evaluate the pieces (side effects / exceptions preserved), opaque result unless concrete
        self.generic_visit(node)
        vals = [v.value for v in node.values if isinstance(v, ast.FormattedValue)]
        return ast.copy_location(
            ast.Call(func=ast.Name(id='__fstr__', ctx=ast.Load()),
                     args=[ast.Tuple(elts=vals, ctx=ast.Load()), ast.Lambda(
                         args=ast.arguments(posonlyargs=[], args=[], kwonlyargs=[], kw_defaults=[], defaults=[]),
                         body=node)], keywords=[]), node)

    def visit_Call(self, node):
        self.generic_visit(node)
        f = node.func
        if isinstance(f, ast.Name) and f.id in ('int', 'str', 'float', 'repr') and f.id not in self.shadowed:
            node.func = ast.copy_location(ast.Name(id='__v%s__' % f.id, ctx=ast.Load()), f)
            return node
        if isinstance(f, ast.Attribute) and isinstance(f.value, ast.Name) and f.value.id == 'int' \
                and 'int' not in self.shadowed:
            f.value = ast.copy_location(ast.Name(id='__intcls__', ctx=ast.Load()), f.value)
            return node
        if isinstance(f, ast.Attribute) and ((isinstance(f.value, ast.Constant) and isinstance(f.value.value, str))
                                             or f.attr in _CM_NAMES):
            return ast.copy_location(
                ast.Call(func=ast.Name(id='__cm__', ctx=ast.Load()),
                         args=[f.value, ast.Constant(value=f.attr)] + node.args, keywords=node.keywords), node)
        return node

    def visit_BinOp(self, node):
        self.generic_visit(node)
        if isinstance(node.op, ast.Mod):
            l = node.left
            if (isinstance(l, ast.Constant) and isinstance(l.value, str)) or \
               (isinstance(l, ast.Call) and isinstance(l.func, ast.Name) and l.func.id == '__B__'):
                return ast.copy_location(
                    ast.Call(func=ast.Name(id='__fmt__', ctx=ast.Load()), args=[l, node.right], keywords=[]), node)
        return node

    def visit_IfExp(self, node):
        self.generic_visit(node)
        simple = _is_simple(node.body) and _is_simple(node.orelse)
        lam = lambda b: ast.Lambda(
            args=ast.arguments(posonlyargs=[], args=[], kwonlyargs=[], kw_defaults=[], defaults=[]), body=b)
        return ast.copy_location(
            ast.Call(func=ast.Name(id='__ite__', ctx=ast.Load()),
                     args=[node.test, lam(node.body), lam(node.orelse), ast.Constant(value=simple)],
                     keywords=[]), node)

    def visit_Subscript(self, node):
        self.generic_visit(node)
        if isinstance(node.ctx, ast.Load) and not isinstance(node.slice, ast.Slice):
            return ast.copy_location(
                ast.Call(func=ast.Name(id='__getitem__', ctx=ast.Load()),
                         args=[node.value, node.slice], keywords=[]), node)
        return node

    def visit_Compare(self, node):
        self.generic_visit(node)
        if len(node.ops) == 1 and isinstance(node.ops[0], (ast.In, ast.NotIn)):
            call = ast.Call(func=ast.Name(id='__contains__', ctx=ast.Load()),
                            args=[node.comparators[0], node.left], keywords=[])
            if isinstance(node.ops[0], ast.NotIn):
                call = ast.Call(func=ast.Name(id='__not__', ctx=ast.Load()), args=[call], keywords=[])
            return ast.copy_location(call, node)
        return node


_CM_NAMES = ('index', 'find', 'rfind', 'join', 'startswith', 'endswith', 'count', 'get')


def _is_simple(n):
    for sub in ast.walk(n):
        if isinstance(sub, (ast.Call, ast.Yield, ast.YieldFrom, ast.Await, ast.NamedExpr, ast.Lambda)):
            # calls introduced by our own rewriting of subscripts are fine
            if isinstance(sub, ast.Call) and isinstance(sub.func, ast.Name) and \
                    sub.func.id in ('__getitem__', '__B__'):
                continue
            return False
    return True


def _shadowed_names(tree):
    names = set()
    for n in ast.walk(tree):
        if isinstance(n, ast.Name) and isinstance(n.ctx, (ast.Store, ast.Del)):
            names.add(n.id)
        elif isinstance(n, ast.arg):
            names.add(n.arg)
        elif isinstance(n, (ast.FunctionDef, ast.ClassDef)):
            names.add(n.name)
    return names


def transform(source, path):
    tree = ast.parse(source, path)
    sh = _shadowed_names(tree)
    tree = _Pass(sh).visit(tree)
    ast.fix_missing_locations(tree)
    return compile(tree, path, 'exec')


# ------------------------------------------------------------------------------------------
# builtin shims

_real_isinstance = isinstance
_real_hash = hash


def v_isinstance(obj, cls):
    if _real_isinstance(cls, tuple):
        for c in cls:
            if v_isinstance(obj, c):
                return True
        return False
    if cls is VBytes:
        return _real_isinstance(obj, (VBytes, bytes))
    if cls is VByteArray:
        return _real_isinstance(obj, (VByteArray, bytearray))
    if _real_isinstance(obj, core.SymIntSub) and _real_isinstance(cls, type) and issubclass(cls, int):
        return issubclass(obj._cls, cls)
    if cls is int:
        return _real_isinstance(obj, (int, SymInt, SymBool))
    if cls is bool:
        return _real_isinstance(obj, (bool, SymBool))
    if cls is str:
        return _real_isinstance(obj, (str, VStr))
    if cls is float:
        from . import symfloat
        return _real_isinstance(obj, (float, symfloat.SymFloat))
    return _real_isinstance(obj, cls)


class HashToken(int):
    """result of hash(bytes) inside the library: integer value 0 (so that real dict/set fall back to __eq__),
    but comparing two tokens compares the hashed byte strings (hash equality <=> argument equality,
    modulo collisions of Python's hash)."""

    def __new__(cls, pre):
        self = int.__new__(cls, 0)
        self.pre = pre
        return self

    def __eq__(self, o):
        if _real_isinstance(o, HashToken):
            return self.pre == o.pre
        return NotImplemented

    def __ne__(self, o):
        if _real_isinstance(o, HashToken):
            return self.pre != o.pre
        return NotImplemented

    def __hash__(self):
        return 0


def v_hash(o):
    if _real_isinstance(o, (SymInt, SymBool)):
        raise EngineLeak("hash() of a symbolic scalar")
    if _real_isinstance(o, (VBytes, VStr)):
        return HashToken(o)
    return _real_hash(o)


def v_range(*a):
    a = [cur().concretize(x) if _real_isinstance(x, SymInt) else x for x in a]
    return range(*a)


def v_min(*a, **k):
    if len(a) == 1:
        a = tuple(a[0])
    if k or not any(_real_isinstance(x, SymInt) for x in a):
        if any(_is_symfloat(x) for x in a):
            from . import symfloat
            return symfloat.fmin(*a)
        return min(*a, **k) if len(a) > 1 else a[0]
    r = a[0]
    for x in a[1:]:
        r = s_ite(x < r, x, r)
    return r


def v_max(*a, **k):
    if len(a) == 1:
        a = tuple(a[0])
    if k or not any(_real_isinstance(x, SymInt) for x in a):
        return max(*a, **k) if len(a) > 1 else a[0]
    r = a[0]
    for x in a[1:]:
        r = s_ite(x > r, x, r)
    return r


def _is_symfloat(x):
    from . import symfloat
    return _real_isinstance(x, symfloat.SymFloat)


def v_len(x):
    n = getattr(x, '_symlen', None)
    if n is not None:
        return n
    return len(x)


def v_ord(c):
    if _real_isinstance(c, VStr):
        if len(c._d) != 1:
            raise TypeError("ord() expected a character, but string of length %d found" % len(c._d))
        return c._d[0]
    if _real_isinstance(c, (VBytes, VByteArray)):
        if len(c._d) != 1:
            raise TypeError("ord() expected a character")
        return c._d[0]
    return ord(c)


def v_chr(i):
    if _real_isinstance(i, SymInt):
        return VStr._mk([i])
    return chr(i)


def v_str(*a, **k):
    if len(a) == 1 and not k:
        x = a[0]
        if _real_isinstance(x, VStr):
            return x
        if _real_isinstance(x, SymInt):
            return vtypes._dec_digits(x, 0) if (x.lo is not None and x.lo >= 0) else str(cur().concretize(x))
        if _real_isinstance(x, (VBytes, VByteArray)):
            st = getattr(type(x), '__str__', None)
            if st is not None and st is not object.__str__:
                return st(x)
            return repr(x)
        if _real_isinstance(x, BaseException):
            # exception text may have been built from an opaque format
            try:
                return str(x)
            except TypeError:
                return vtypes.OPAQUE
        st = getattr(type(x), '__str__', None)
        if st is not None and st is not object.__str__ and not _real_isinstance(x, (str, int, float, bytes)):
            r = st(x)
            return r
        return str(x)
    if a and _real_isinstance(a[0], (VBytes, VByteArray)):
        return a[0].decode(*a[1:], **k)
    return str(*a, **k)


def v_repr(x):
    try:
        r = type(x).__repr__(x)
    except EngineLeak:
        return vtypes.OPAQUE
    if _real_isinstance(r, VStr):
        return r.real() if r.is_concrete() else vtypes.OPAQUE
    return r


def v_float(x=0.0):
    from . import symfloat
    return symfloat.to_float(x)


def v_getitem(obj, idx):
    if _real_isinstance(idx, SymInt):
        if _real_isinstance(obj, (list, tuple)):
            n = len(obj)
            neg = idx < 0
            if not _real_isinstance(neg, bool):
                neg = cur().branch(neg.e)
            if neg:
                idx = idx + n
            ok = s_and(idx >= 0, idx < n)
            if not (ok if _real_isinstance(ok, bool) else cur().branch(ok.e)):
                raise IndexError("list index out of range")
            if not _real_isinstance(idx, SymInt):
                return obj[idx]
            if all(type(v) is int or _real_isinstance(v, SymInt) for v in obj):
                return vtypes._select(list(obj), idx)
            k0 = type(obj[0]) if n else None
            if n and issubclass(k0, int) and k0 is not bool and all(type(v) is k0 for v in obj):
                # table of instances of one int subclass (e.g. the CScriptOp singleton table)
                if all(int(v) == i for i, v in enumerate(obj)):
                    return core.SymIntSub.wrap(idx, k0)
                r = vtypes._select([int(v) for v in obj], idx)
                return core.SymIntSub.wrap(r, k0) if _real_isinstance(r, SymInt) else k0(r)
            return obj[cur().concretize(idx)]
        if _real_isinstance(obj, str):
            r = VStr(obj)[idx]
            if len(r._d) == 1 and _real_isinstance(r._d[0], SymInt):
                r._d[0].tag = ('tbl', obj, idx)
            return r
        if _real_isinstance(obj, (bytes, bytearray)):
            return VBytes(obj)[idx]
        if _real_isinstance(obj, dict):
            for k in obj:
                if _real_isinstance(k, int):
                    c = idx == k
                    if (c if _real_isinstance(c, bool) else cur().branch(c.e)):
                        return obj[k]
            raise KeyError(idx)
    elif _real_isinstance(idx, SymBool):
        return v_getitem(obj, idx.as_int())
    elif _real_isinstance(idx, (VBytes, VStr)) and _real_isinstance(obj, dict):
        for k in obj:
            c = (k == idx)
            if c is NotImplemented or c is False:
                continue
            if (c if _real_isinstance(c, bool) else cur().branch(c.e)):
                return obj[k]
        raise KeyError(idx)
    return obj[idx]


def v_contains(container, x):
    if _real_isinstance(x, (SymInt, SymBool)):
        if _real_isinstance(x, SymBool):
            x = x.as_int()
        if _real_isinstance(container, (set, frozenset, dict, list, tuple, range)):
            conds = [x == k for k in container if _real_isinstance(k, (int, SymInt))]
            r = s_or(*conds) if conds else False
            return r if _real_isinstance(r, bool) else cur().branch(r.e)
    if _real_isinstance(x, (VBytes, VStr)) and _real_isinstance(container, (set, frozenset, dict, list, tuple)):
        for k in container:
            c = (k == x)
            if c is NotImplemented or c is False:
                continue
            if (c if _real_isinstance(c, bool) else cur().branch(c.e)):
                return True
        return False
    if _real_isinstance(x, VStr) and _real_isinstance(container, str):
        return x in VStr(container)
    r = x in container
    return r


def v_not(x):
    if _real_isinstance(x, (SymBool, SymInt)):
        return not cur().branch(core.bexpr(x))
    return not x


def v_ite(c, fa, fb, simple):
    if simple and _real_isinstance(c, (SymBool, SymInt)):
        try:
            a = fa()
            b = fb()
        except EngineLeak:
            raise
        except Exception:
            a = b = None
            return fa() if cur().branch(core.bexpr(c)) else fb()
        if _real_isinstance(a, (int, SymInt, SymBool)) and _real_isinstance(b, (int, SymInt, SymBool)):
            return s_ite(c, a, b)
        return a if cur().branch(core.bexpr(c)) else b
    return fa() if c else fb()


def v_cm(recv, name, *args, **kw):
    """method call on a constant / real str or bytes receiver with possibly symbolic arguments"""
    if _real_isinstance(recv, str):
        symbolic = any(_real_isinstance(a, (VStr, VBytes, SymInt)) for a in args)
        if not symbolic and name == 'join' and args:
            lst = list(args[0])
            if any(_real_isinstance(a, VStr) for a in lst):
                return VStr(recv).join(lst)
            return recv.join(lst)
        if symbolic:
            return getattr(VStr(recv), name)(*args, **kw)
    elif _real_isinstance(recv, (bytes, bytearray)):
        if any(_real_isinstance(a, (VBytes, VByteArray, SymInt)) for a in args) or name == 'join':
            return getattr(VBytes(recv), name)(*args, **kw)
    elif name == 'get' and _real_isinstance(recv, dict) and args and _real_isinstance(args[0], (SymInt, SymBool, VBytes, VStr)):
        # dict.get with a symbolic key: fork over the keys
        try:
            return v_getitem(recv, args[0])
        except KeyError:
            return args[1] if len(args) > 1 else None
    return getattr(recv, name)(*args, **kw)


def v_fstr(vals, thunk):
    if vtypes._any_sym(tuple(vals)):
        return vtypes.OPAQUE
    return thunk()


class _IntCls(object):
    @staticmethod
    def from_bytes(b, byteorder='big', *, signed=False):
        d = vtypes._items(b)
        if byteorder == 'big':
            d = d[::-1]
        return stubs.bytes_to_int_le(list(d), signed)


def _noprint(*a, **k):
    pass


def make_builtins():
    d = dict(_b.__dict__)
    d.update({
        'bytes': VBytes, 'bytearray': VByteArray,
        'isinstance': v_isinstance, 'hash': v_hash, 'range': v_range,
        'min': v_min, 'max': v_max, 'len': v_len, 'ord': v_ord, 'chr': v_chr, 'print': _noprint,
        '__B__': VBytes, '__vint__': core.vint, '__vstr__': v_str, '__vrepr__': v_repr,
        '__vfloat__': v_float, '__fmt__': vtypes.fmt, '__ite__': v_ite, '__getitem__': v_getitem,
        '__contains__': v_contains, '__not__': v_not, '__cm__': v_cm, '__intcls__': _IntCls,
        '__fstr__': v_fstr,
    })
    return d


# ------------------------------------------------------------------------------------------
# module table


_MISSING = object()


class Lib(object):
    """A shadow-loaded copy of the bitcoin package."""

    def __init__(self, repo=REPO, key_stub=True):
        self.repo = repo
        self.modules = {}
        self.builtins = make_builtins()
        self.builtins['__import__'] = self._import
        self.stubmods = {
            'struct': stubs.make_struct(), 'io': stubs.make_io(), 'hashlib': stubs.make_hashlib(),
            'binascii': stubs.make_binascii(), 'base64': stubs.make_base64(), 'socket': stubs.make_socket(),
            'time': stubs.make_time(), 'random': stubs.make_random(), 'math': stubs.make_math(), 'json': stubs.make_json(), 'decimal': stubs.make_decimal(),
        }
        self.sources = {}
        self.key_stub = key_stub
        self.load('bitcoin')
        for name in ('bitcoin.core', 'bitcoin.core.serialize', 'bitcoin.core.script', 'bitcoin.core.scripteval',
                     'bitcoin.core.key', 'bitcoin.base58', 'bitcoin.bech32', 'bitcoin.segwit_addr',
                     'bitcoin.wallet', 'bitcoin.bloom', 'bitcoin.net', 'bitcoin.messages',
                     'bitcoin.signmessage', 'bitcoin.signature', 'bitcoin.core._bignum', 'bitcoin.rpc',
                     'bitcoin.core.contrib.ripemd160'):
            self.load(name)
        self._snapshot()

    # -- module/class level state: every path starts from the state right after import ("fresh process"), so that
    #    memo tables, class-level scratch objects and counters a change may introduce cannot carry symbolic terms of one
    #    path into the next; history-dependent behaviour is exercised by harnesses that make several calls on ONE path
    def _snapshot(self):
        self._attrs = []          # (owner, {name: value at import})
        self._containers = []     # (container, shallow copy at import)
        self._caches = []         # functools.lru_cache wrappers
        seen = set()

        def note(v):
            if id(v) in seen:
                return
            seen.add(id(v))
            if type(v) in (dict, list, set, bytearray):
                self._containers.append((v, copy.copy(v)))
            f = getattr(v, '__func__', v)
            if callable(getattr(f, 'cache_clear', None)):
                self._caches.append(f)
        for m in list(self.modules.values()):
            d = {k: v for k, v in vars(m).items() if not (k.startswith('__') and k.endswith('__'))}
            self._attrs.append((m, d))
            for v in d.values():
                note(v)
                if isinstance(v, type) and str(getattr(v, '__module__', '')).startswith('bitcoin') and ('cls', id(v)) not in seen:
                    seen.add(('cls', id(v)))
                    cd = {k: cv for k, cv in vars(v).items() if k not in ('__dict__', '__weakref__')}
                    self._attrs.append((v, cd))
                    for cv in cd.values():
                        note(cv)

    def reset(self):
        for owner, d in self._attrs:
            cur = vars(owner)
            if len(cur) != len(d):
                for k in [k for k in cur if k not in d and not (k.startswith('__') and k.endswith('__'))]:
                    try:
                        delattr(owner, k)
                    except (AttributeError, TypeError):
                        pass
            for k, v in d.items():
                if cur.get(k, _MISSING) is not v:
                    try:
                        setattr(owner, k, v)
                    except (AttributeError, TypeError):
                        pass
        for c, orig in self._containers:
            if type(c) in (list, bytearray):
                c[:] = orig
            else:
                c.clear()
                c.update(orig)
        for f in self._caches:
            f.cache_clear()

    def __getitem__(self, name):
        return self.modules[name]

    def _path(self, name):
        p = os.path.join(self.repo, *name.split('.'))
        if os.path.isdir(p):
            return os.path.join(p, '__init__.py'), True
        return p + '.py', False

    def load(self, name):
        if name in self.modules:
            return self.modules[name]
        if '.' in name:
            self.load(name.rsplit('.', 1)[0])
            if name in self.modules:
                return self.modules[name]
        path, is_pkg = self._path(name)
        if not os.path.exists(path):
            raise ImportError("shadow loader: no module %s" % name)
        m = types.ModuleType(name)
        m.__file__ = path
        m.__builtins__ = self.builtins
        if is_pkg:
            m.__path__ = [os.path.dirname(path)]
            m.__package__ = name
        else:
            m.__package__ = name.rsplit('.', 1)[0] if '.' in name else ''
        self.modules[name] = m
        if '.' in name:
            parent, child = name.rsplit('.', 1)
        with open(path) as f:
            src = f.read()
        self.sources[name] = path
        code = transform(src, path)
        exec(code, m.__dict__)
        if '.' in name:
            setattr(self.modules[parent], child, m)
        if name == 'bitcoin.core.contrib.ripemd160':
            # symbolic inputs: uninterpreted function unless path_state['ripemd160'] == 'code' (C06 kernel harness)
            rip = m.ripemd160
            import functools
            stubs._REAL['ripemd160'] = functools.lru_cache(maxsize=200000)(lambda b: bytes(rip(VBytes(b))._d))

            def ripemd160(data, _rip=rip):
                d = VBytes(data)
                st = stubs.cur_state()
                if st is not None and st.get('ripemd160') == 'code':
                    return _rip(d)
                if d.is_concrete() and st is None:
                    return _rip(d)
                # concrete inputs inside an exploration also go through hash_apply: it computes them with the library's own code
                # and records the pair, so that uninterpreted applications on the same path agree with it on equal inputs
                return stubs.hash_apply('ripemd160', d)
            m.ripemd160_code = rip
            m.ripemd160 = ripemd160
        if name == 'bitcoin.core.key' and self.key_stub:
            from . import keystub
            keystub.install(m)
        return m

    def _import(self, name, globals=None, locals=None, fromlist=(), level=0):
        if level > 0:
            pkg = globals.get('__package__') or globals['__name__'].rsplit('.', 1)[0]
            base = pkg.split('.')
            if level > 1:
                base = base[:-(level - 1)]
            full = '.'.join(base + ([name] if name else []))
            mod = self.load(full)
            if fromlist:
                for f in fromlist:
                    if f != '*' and not hasattr(mod, f):
                        try:
                            self.load(full + '.' + f)
                        except ImportError:
                            pass
            return mod
        top = name.split('.')[0]
        if top == 'bitcoin':
            mod = self.load(name)
            if fromlist:
                for f in fromlist:
                    if f != '*' and not hasattr(mod, f):
                        try:
                            self.load(name + '.' + f)
                        except ImportError:
                            pass
                return mod
            return self.modules['bitcoin']
        if name in self.stubmods:
            return self.stubmods[name]
        return _b.__import__(name, globals, locals, fromlist, level)
