"""Oracle stub for bitcoin.core.key.CECKey (OpenSSL behind ctypes cannot be executed symbolically).

verify(hash, sig) is an uninterpreted predicate V(pubkey, hash, sig); with fully concrete
operands and path_state['ecdsa'] == 'real' the original OpenSSL-backed class is used instead
(concrete differential self-test).  Contracts used by C05/C14 are documented in DESIGN.md.
"""
import z3
from .core import SymInt, SymBool, EngineLeak, cur, mkbool
from .vtypes import VBytes, VByteArray, _items
from . import stubs

_V = {}


def _bv(items):
    parts = [x.tw(8) if isinstance(x, SymInt) else z3.BitVecVal(x, 8) for x in items]
    if not parts:
        return z3.BitVecVal(0, 1)
    return z3.Concat(*parts) if len(parts) > 1 else parts[0]


def V(pubkey, h, sig):
    """the oracle predicate, shared by the stub and the reference interpreter.
    With path_state['ecdsa_table'] = [(pubkey, digest, der_sig), ...] it is the idealised ECDSA of C05:
    exactly the registered triples verify."""
    st = stubs.cur_state() or {}
    table = st.get('ecdsa_table')
    if table is not None:
        from .core import s_or, s_and
        alts = []
        for (p, d, s) in table:
            if len(p) == len(pubkey) and len(d) == len(h) and len(s) == len(sig):
                alts.append(s_and(VBytes(pubkey) == p, VBytes(h) == d, VBytes(sig) == s))
        return s_or(*alts) if alts else False
    pk, hh, sg = _items(pubkey), _items(h), _items(sig)
    k = (len(pk), len(hh), len(sg))
    f = _V.get(k)
    if f is None:
        f = z3.Function('ecdsa_V_%d_%d_%d' % k, z3.BitVecSort(max(1, 8 * k[0])), z3.BitVecSort(max(1, 8 * k[1])),
                        z3.BitVecSort(max(1, 8 * k[2])), z3.BoolSort())
        _V[k] = f
    return mkbool(f(_bv(pk), _bv(hh), _bv(sg)))


def install(mod):
    Real = mod.CECKey

    class CECKey(object):
        POINT_CONVERSION_COMPRESSED = 2
        POINT_CONVERSION_UNCOMPRESSED = 4

        def __init__(self):
            self._pub = None
            self._real = None
            self._compressed = True
            self._secret = None

        def _mode(self):
            st = stubs.cur_state()
            if st is None:
                return 'real'
            return st.get('ecdsa', 'uf')

        def set_pubkey(self, key):
            self._pub = VBytes(key)
            if self._mode() == 'real' and self._pub.is_concrete():
                self._real = Real()
                return self._real.set_pubkey(self._pub.real())
            st = stubs.cur_state() or {}
            hook = st.get('pk_valid')
            if hook is not None:
                return 1 if hook(self._pub) else None
            return 1

        def set_secretbytes(self, secret):
            if len(secret) != 32:
                raise ValueError("Secret bytes must be exactly 32 bytes")
            self._secret = VBytes(secret)
            if self._mode() == 'real' and self._secret.is_concrete():
                self._real = Real()
                self._real.set_secretbytes(self._secret.real())
            return 1

        def set_compressed(self, compressed):
            self._compressed = bool(compressed)
            if self._real is not None:
                self._real.set_compressed(compressed)

        def get_pubkey(self):
            if self._real is not None:
                return VBytes(self._real.get_pubkey())
            st = stubs.cur_state() or {}
            hook = st.get('derive_pub')
            if hook is None:
                if self._pub is not None:
                    return self._pub
                raise EngineLeak("get_pubkey without a derive_pub hook")
            return hook(self._secret, self._compressed) if self._secret is not None else self._pub

        def verify(self, h, sig):
            if not sig:
                return False
            if self._real is not None and VBytes(h).is_concrete() and VBytes(sig).is_concrete():
                return self._real.verify(VBytes(h).real(), VBytes(sig).real())
            return V(self._pub, h, sig)

        def sign(self, h):
            if not isinstance(h, (VBytes, bytes)):
                raise TypeError('Hash must be bytes instance; got %r' % h.__class__)
            if len(h) != 32:
                raise ValueError('Hash must be exactly 32 bytes long')
            if self._real is not None and VBytes(h).is_concrete():
                return VBytes(self._real.sign(VBytes(h).real()))
            st = stubs.cur_state() or {}
            hook = st.get('sign')
            if hook is None:
                raise EngineLeak("sign without a sign hook")
            return hook(self, h)

        def sign_compact(self, h):
            if not isinstance(h, (VBytes, bytes)):
                raise TypeError('Hash must be bytes instance; got %r' % h.__class__)
            if len(h) != 32:
                raise ValueError('Hash must be exactly 32 bytes long')
            if self._real is not None and VBytes(h).is_concrete():
                s, i = self._real.sign_compact(VBytes(h).real())
                return VBytes(s), i
            st = stubs.cur_state() or {}
            hook = st.get('sign_compact')
            if hook is None:
                raise EngineLeak("sign_compact without a hook")
            return hook(self, h)

        def recover(self, sigR, sigS, msg, msglen, recid, check):
            st = stubs.cur_state() or {}
            hook = st.get('recover')
            if hook is None:
                if all(VBytes(x).is_concrete() for x in (sigR, sigS, msg)) and not isinstance(recid, SymInt):
                    self._real = Real()
                    self._real.set_compressed(self._compressed)
                    return self._real.recover(VBytes(sigR).real(), VBytes(sigS).real(), VBytes(msg).real(),
                                              msglen, recid, check)
                raise EngineLeak("recover without a hook")
            return hook(self, sigR, sigS, msg, msglen, recid, check)

    CECKey.Real = Real
    mod.CECKey = CECKey
