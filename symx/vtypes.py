"""Virtual bytes / bytearray / str / BytesIO carrying concrete ints or symbolic (SymInt) items.

Lengths are always concrete.  Nothing here is a subclass of the real bytes/str, so C-level
functions reject the proxies loudly instead of silently realising them.
"""
import z3
from .core import (SymInt, SymBool, EngineLeak, cur, mkbool, bexpr, s_ite, s_and, s_or, s_not,
                   is_sym)

_rbytes = bytes
_rbytearray = bytearray
_rstr = str
_rint = int


def _is_byteslike(o):
    return isinstance(o, (VBytes, VByteArray, _rbytes, _rbytearray))


def _items(o):
    if isinstance(o, (VBytes, VByteArray)):
        return o._d
    if isinstance(o, (_rbytes, _rbytearray)):
        return list(o)
    raise TypeError("a bytes-like object is required, not %r" % type(o).__name__)


def _check_byte(v):
    if isinstance(v, SymInt):
        if v.lo is not None and v.hi is not None and v.lo >= 0 and v.hi <= 255:
            return v
        ok = s_and(v >= 0, v <= 255)
        if not (ok if isinstance(ok, bool) else cur().branch(ok.e)):
            raise ValueError("bytes must be in range(0, 256)")
        if v.lia:
            return SymInt(v.e, 0, 255, None, v.tag)
        return SymInt.from_bv(v.tw(9), 0, 255, True)
    if isinstance(v, SymBool):
        return v.as_int()
    if hasattr(v, '__index__'):
        v = v.__index__()
        if not 0 <= v <= 255:
            raise ValueError("bytes must be in range(0, 256)")
        return v
    raise TypeError("'%s' object cannot be interpreted as an integer" % type(v).__name__)


def _slice_indices(sl, n):
    """concrete (start, stop, step) for a slice whose bounds may be symbolic"""
    def conc(v, clamp_lo, clamp_hi):
        if isinstance(v, SymInt):
            # fork on the clamped value so that at most n+2 outcomes exist
            vv = v
            neg = vv < 0
            if not isinstance(neg, bool):
                neg = cur().branch(neg.e)
            if neg:
                vv = vv + n
                below = vv < 0
                if (below if isinstance(below, bool) else cur().branch(below.e)):
                    return clamp_lo
            above = vv >= n
            if (above if isinstance(above, bool) else cur().branch(above.e)):
                return n if clamp_hi is None else clamp_hi
            return cur().concretize(vv)
        return v
    start, stop, step = sl.start, sl.stop, sl.step
    if isinstance(step, SymInt):
        step = cur().concretize(step)
    if step is None or step > 0:
        start = conc(start, 0, None)
        stop = conc(stop, 0, None)
    else:
        start = conc(start, -1, n - 1) if start is not None else None
        stop = conc(stop, -1, n - 1) if stop is not None else None
        if isinstance(sl.start, SymInt) or isinstance(sl.stop, SymInt):
            raise EngineLeak("negative-step slice with symbolic bounds")
    return slice(start, stop, step)


def _sym_index(d, idx, what):
    """items[idx] for symbolic idx: bounds fork + ite chain"""
    n = len(d)
    neg = idx < 0
    if not isinstance(neg, bool):
        neg = cur().branch(neg.e)
    if neg:
        idx = idx + n
    ok = s_and(idx >= 0, idx < n)
    if not (ok if isinstance(ok, bool) else cur().branch(ok.e)):
        raise IndexError("%s index out of range" % what)
    if not isinstance(idx, SymInt):
        return d[idx], idx
    return None, idx


def _select(d, idx):
    """ite-chain select of int-like items"""
    lo = max(0, idx.lo if idx.lo is not None else 0)
    hi = min(len(d) - 1, idx.hi if idx.hi is not None else len(d) - 1)
    r = d[hi]
    for i in range(hi - 1, lo - 1, -1):
        r = s_ite(idx == i, d[i], r)
    return r



class _SeqExtras(object):
    """less common parts of the bytes/str API, shared by VBytes and VStr (code points / byte values in self._d)"""

    def _cls_pred(self, ranges, ascii_only):
        """all items inside the union of the closed ranges, and at least one item; symbolic -> branch"""
        if not self._d:
            return False
        conds = []
        for v in self._d:
            if ascii_only and isinstance(v, SymInt) and (v.hi is None or v.hi > 127):
                hi = v >= 128
                if (hi if isinstance(hi, bool) else cur().branch(hi.e)):
                    raise EngineLeak("character-class predicate on a symbolic non-ASCII code point")
            elif ascii_only and not isinstance(v, SymInt) and v > 127:
                raise EngineLeak("character-class predicate on a non-ASCII code point")
            conds.append(s_or(*[s_and(v >= a, v <= b) for a, b in ranges]))
        r = s_and(*conds)
        return r if isinstance(r, bool) else cur().branch(r.e)

    def isdigit(self):
        if self.is_concrete():
            return self.real().isdigit()
        return self._cls_pred([(48, 57)], isinstance(self, VStr))

    def isalpha(self):
        if self.is_concrete():
            return self.real().isalpha()
        return self._cls_pred([(65, 90), (97, 122)], isinstance(self, VStr))

    def isalnum(self):
        if self.is_concrete():
            return self.real().isalnum()
        return self._cls_pred([(48, 57), (65, 90), (97, 122)], isinstance(self, VStr))

    def isspace(self):
        if self.is_concrete():
            return self.real().isspace()
        return self._cls_pred([(9, 13), (32, 32)] + ([(28, 31)] if isinstance(self, VStr) else []), isinstance(self, VStr))

    def isascii(self):
        r = s_and(*[v <= 127 for v in self._d]) if self._d else True
        return r if isinstance(r, bool) else cur().branch(r.e)

    def _cased(self, lo, hi, olo, ohi):
        if self.is_concrete():
            return None
        anyc = s_or(*[s_and(v >= lo, v <= hi) for v in self._d]) if self._d else False
        none_other = s_and(*[s_not(s_and(v >= olo, v <= ohi)) for v in self._d]) if self._d else True
        if isinstance(self, VStr):
            for v in self._d:
                if isinstance(v, SymInt) and (v.hi is None or v.hi > 127):
                    hi_ = v >= 128
                    if (hi_ if isinstance(hi_, bool) else cur().branch(hi_.e)):
                        raise EngineLeak("case predicate on a symbolic non-ASCII code point")
        r = s_and(anyc, none_other)
        return r if isinstance(r, bool) else cur().branch(r.e)

    def islower(self):
        r = self._cased(97, 122, 65, 90)
        return self.real().islower() if r is None else r

    def isupper(self):
        r = self._cased(65, 90, 97, 122)
        return self.real().isupper() if r is None else r

    def rfind(self, sub):
        sd = type(self)(sub)._d if not isinstance(sub, (int, SymInt)) else [sub]
        n = len(sd)
        for i in range(len(self._d) - n, -1, -1):
            r = _eq_items(self._d[i:i + n], sd)
            if (r if isinstance(r, bool) else cur().branch(r.e)):
                return i
        return -1

    def count(self, sub):
        if self.is_concrete() and not isinstance(sub, SymInt) and (isinstance(sub, int) or type(self)(sub).is_concrete()):
            return self.real().count(sub if isinstance(sub, int) else type(self)(sub).real())
        sd = type(self)(sub)._d if not isinstance(sub, (int, SymInt)) else [sub]
        if len(sd) == 1:
            r = 0
            for v in self._d:
                r = r + s_ite(v == sd[0], 1, 0)
            return r
        raise EngineLeak("count of a multi-item pattern on symbolic data")

    def rindex(self, sub):
        r = self.rfind(sub)
        if not isinstance(r, SymInt) and r < 0:
            raise ValueError("substring not found")
        return r

    def zfill(self, width):
        n = len(self._d)
        if width <= n:
            return self
        d = list(self._d)
        if d:
            sign = s_or(d[0] == 43, d[0] == 45)
            if (sign if isinstance(sign, bool) else cur().branch(sign.e)):
                return type(self)._mk([d[0]] + [48] * (width - n) + d[1:])
        return type(self)._mk([48] * (width - n) + d)

    def center(self, width, fill=None):
        n = len(self._d)
        if width <= n:
            return self
        f = 32 if fill is None else type(self)(fill)._d[0]
        left = (width - n) // 2 + ((width - n) & width & 1)
        return type(self)._mk([f] * left + list(self._d) + [f] * (width - n - left))

    def partition(self, sep):
        i = self.find(sep)
        if isinstance(i, SymInt):
            i = cur().concretize(i) if hasattr(cur(), 'concretize') else i
        if i < 0:
            return (self, type(self)._mk([]), type(self)._mk([]))
        n = len(type(self)(sep)._d)
        return (self[:i], self[i:i + n], self[i + n:])

    def rpartition(self, sep):
        i = self.rfind(sep)
        if i < 0:
            return (type(self)._mk([]), type(self)._mk([]), self)
        n = len(type(self)(sep)._d)
        return (self[:i], self[i:i + n], self[i + n:])

    def replace(self, old, new, count=-1):
        od = type(self)(old)._d
        nd = type(self)(new)._d
        if len(od) == 1 and len(nd) == 1 and count < 0:
            return type(self)._mk([s_ite(v == od[0], nd[0], v) for v in self._d])
        if self.is_concrete() and type(self)(old).is_concrete() and type(self)(new).is_concrete():
            return type(self)(self.real().replace(type(self)(old).real(), type(self)(new).real(), count))
        # general case: scan left to right, forking on each match
        out, i, k, n = [], 0, 0, len(od)
        if n == 0:
            raise EngineLeak("replace of an empty pattern on symbolic data")
        while i < len(self._d):
            if (count < 0 or k < count) and i + n <= len(self._d):
                r = _eq_items(self._d[i:i + n], od)
                if (r if isinstance(r, bool) else cur().branch(r.e)):
                    out.extend(nd)
                    i += n
                    k += 1
                    continue
            out.append(self._d[i])
            i += 1
        return type(self)._mk(out)


class VBytes(_SeqExtras, object):
    """immutable virtual byte string"""

    def __new__(cls, src=b'', encoding=None, errors=None):
        self = object.__new__(cls)
        if isinstance(src, (VBytes, VByteArray)):
            self._d = list(src._d)
        elif isinstance(src, (_rbytes, _rbytearray)):
            self._d = list(src)
        elif isinstance(src, _rstr):
            if encoding is None:
                raise TypeError("string argument without an encoding")
            self._d = list(src.encode(encoding))
        elif isinstance(src, VStr):
            self._d = list(src.encode(encoding or 'utf8')._d)
        elif isinstance(src, (SymInt,)):
            self._d = [0] * cur().concretize(src)
        elif isinstance(src, _rint):
            self._d = [0] * src
        else:
            self._d = [_check_byte(v) for v in src]
        return self

    def __init__(self, *a, **k):
        pass

    # -- helpers ----------------------------------------------------------------------
    def is_concrete(self):
        for v in self._d:
            if not isinstance(v, _rint):
                return False
        return True

    def real(self):
        if not self.is_concrete():
            raise EngineLeak("symbolic byte string passed where concrete bytes are required")
        return _rbytes(self._d)

    def __bytes__(self):
        return self.real()

    @classmethod
    def fromhex(cls, s):
        return cls(_rbytes.fromhex(s))

    # -- sequence protocol ------------------------------------------------------------
    def __len__(self):
        return len(self._d)

    def __iter__(self):
        return iter(self._d)

    def __bool__(self):
        return len(self._d) > 0

    def __getitem__(self, i):
        if isinstance(i, slice):
            if is_sym(i.start) or is_sym(i.stop) or is_sym(i.step):
                i = _slice_indices(i, len(self._d))
            return VBytes._mk(self._d[i])
        if isinstance(i, SymInt):
            v, i = _sym_index(self._d, i, 'index')
            if v is not None:
                return v
            return _select(self._d, i)
        return self._d[i]

    @staticmethod
    def _mk(items):
        r = object.__new__(VBytes)
        r._d = items
        return r

    def __add__(self, o):
        if not _is_byteslike(o):
            raise TypeError("can't concat %s to bytes" % type(o).__name__)
        return VBytes._mk(self._d + _items(o))

    def __radd__(self, o):
        if not _is_byteslike(o):
            return NotImplemented
        return VBytes._mk(_items(o) + self._d)

    def __mul__(self, n):
        if isinstance(n, SymInt):
            n = cur().concretize(n)
        if not isinstance(n, _rint):
            return NotImplemented
        return VBytes._mk(self._d * n)
    __rmul__ = __mul__

    def __mod__(self, args):
        return fmt(self, args)

    def __eq__(self, o):
        if not _is_byteslike(o):
            return NotImplemented
        od = _items(o)
        if len(od) != len(self._d):
            return False
        return _eq_items(self._d, od)

    def __ne__(self, o):
        r = self.__eq__(o)
        if r is NotImplemented:
            return r
        return s_not(r)

    def _cmp_real(self, o):
        if not _is_byteslike(o):
            return None
        a, b = self, VBytes(o)
        if a.is_concrete() and b.is_concrete():
            return a.real(), b.real()
        raise EngineLeak("ordering comparison of symbolic byte strings")

    def __lt__(self, o):
        p = self._cmp_real(o)
        return NotImplemented if p is None else p[0] < p[1]

    def __le__(self, o):
        p = self._cmp_real(o)
        return NotImplemented if p is None else p[0] <= p[1]

    def __gt__(self, o):
        p = self._cmp_real(o)
        return NotImplemented if p is None else p[0] > p[1]

    def __ge__(self, o):
        p = self._cmp_real(o)
        return NotImplemented if p is None else p[0] >= p[1]

    def __hash__(self):
        # constant: equal strings must hash equal and equality may be symbolic.  Real
        # dict/set then fall back to __eq__ (which forks when symbolic).
        return 0

    def __contains__(self, x):
        if _is_byteslike(x):
            xd = _items(x)
            if len(xd) == 0:
                return True
            n = len(xd)
            conds = [_eq_items(self._d[i:i + n], xd) for i in range(len(self._d) - n + 1)]
            r = s_or(*conds) if conds else False
            return r if isinstance(r, bool) else cur().branch(r.e)
        r = s_or(*[v == x for v in self._d]) if self._d else False
        return r if isinstance(r, bool) else cur().branch(r.e)

    def __repr__(self):
        if self.is_concrete():
            return repr(self.real())
        return 'VBytes<%d sym>' % len(self._d)

    # -- bytes methods ----------------------------------------------------------------
    def hex(self):
        from .stubs import hexlify_v
        return hexlify_v(self).decode('ascii')

    def decode(self, encoding='utf-8', errors='strict'):
        if self.is_concrete():
            return self.real().decode(encoding, errors)
        enc = encoding.lower().replace('-', '')
        # ASCII subset only (hex digits, base64 ...): every item must be < 128
        out = []
        for v in self._d:
            ok = v < 128
            if not (ok if isinstance(ok, bool) else cur().branch(ok.e)):
                if enc in ('ascii',):
                    raise UnicodeDecodeError(enc, b'', 0, 1, 'ordinal not in range(128)')
                raise EngineLeak("decode of symbolic non-ASCII utf8")
            out.append(v)
        return VStr._mk(out)

    def join(self, it):
        out = []
        first = True
        for x in it:
            if not first:
                out.extend(self._d)
            first = False
            if not _is_byteslike(x):
                raise TypeError("sequence item: expected a bytes-like object, %s found" % type(x).__name__)
            out.extend(_items(x))
        return VBytes._mk(out)

    def split(self, sep=None, maxsplit=-1):
        if self.is_concrete() and (sep is None or VBytes(sep).is_concrete()):
            return [VBytes(p) for p in self.real().split(None if sep is None else VBytes(sep).real(), maxsplit)]
        sd = _items(sep)
        if len(sd) != 1:
            raise EngineLeak("split of symbolic bytes on multi-byte separator")
        s = sd[0]
        parts = []
        curp = []
        n = 0
        for idx, v in enumerate(self._d):
            if maxsplit >= 0 and n >= maxsplit:
                curp.append(v)
                continue
            c = v == s
            if (c if isinstance(c, bool) else cur().branch(c.e)):
                parts.append(VBytes._mk(curp))
                curp = []
                n += 1
            else:
                curp.append(v)
        parts.append(VBytes._mk(curp))
        return parts

    def rjust(self, width, fill=b' '):
        f = _items(fill)
        if len(f) != 1:
            raise TypeError("rjust() fill must be a byte string of length 1")
        return VBytes._mk(f * max(0, width - len(self._d)) + self._d)

    def ljust(self, width, fill=b' '):
        f = _items(fill)
        return VBytes._mk(self._d + f * max(0, width - len(self._d)))

    def startswith(self, p):
        pd = _items(p)
        if len(pd) > len(self._d):
            return False
        r = _eq_items(self._d[:len(pd)], pd)
        return r if isinstance(r, bool) else cur().branch(r.e)

    def endswith(self, p):
        pd = _items(p)
        if len(pd) > len(self._d):
            return False
        r = _eq_items(self._d[len(self._d) - len(pd):], pd)
        return r if isinstance(r, bool) else cur().branch(r.e)

    def find(self, sub, start=0):
        sd = _items(sub) if _is_byteslike(sub) else [sub]
        n = len(sd)
        for i in range(start, len(self._d) - n + 1):
            r = _eq_items(self._d[i:i + n], sd)
            if (r if isinstance(r, bool) else cur().branch(r.e)):
                return i
        return -1

    def index(self, sub, start=0):
        r = self.find(sub, start)
        if r < 0:
            raise ValueError("subsection not found")
        return r

    def _strip(self, chars, left, right):
        cd = list(b' \t\n\r\x0b\x0c') if chars is None else list(VBytes(chars)._d)
        d = list(self._d)

        def member(v):
            r = s_or(*[v == c for c in cd]) if cd else False
            return r if isinstance(r, bool) else cur().branch(r.e)
        if left:
            while d and member(d[0]):
                d.pop(0)
        if right:
            while d and member(d[-1]):
                d.pop()
        return VBytes._mk(d)

    def lstrip(self, chars=None):
        return self._strip(chars, True, False)

    def rstrip(self, chars=None):
        return self._strip(chars, False, True)

    def strip(self, chars=None):
        return self._strip(chars, True, True)

    def removeprefix(self, p):
        return self[len(p):] if self.startswith(p) else self

    def removesuffix(self, p):
        return self[:len(self) - len(p)] if len(p) and self.endswith(p) else self

    def lower(self):
        return VBytes._mk([_lower(v) for v in self._d])

    def upper(self):
        return VBytes._mk([_upper(v) for v in self._d])

    def __reversed__(self):
        return reversed(self._d)


def _eq_items(a, b):
    conds = []
    for x, y in zip(a, b):
        c = x == y
        if c is False:
            return False
        if c is True:
            continue
        conds.append(c)
    if not conds:
        return True
    if len(conds) == 1:
        return conds[0]
    return mkbool(z3.And(*[bexpr(c) for c in conds]))


def _retable(v, f):
    t = v.tag
    if t is not None and t[0] == 'tbl':
        nt = f(t[1])
        if nt == t[1]:
            return v
        if len(nt) == len(t[1]):
            r = _select([ord(c) for c in nt], t[2]) if isinstance(t[2], SymInt) else ord(nt[t[2]])
            if isinstance(r, SymInt):
                r.tag = ('tbl', nt, t[2])
            return r
    return None


def _lower(v):
    if isinstance(v, SymInt):
        r = _retable(v, str.lower)
        if r is not None:
            return r
        return s_ite(s_and(v >= 65, v <= 90), v + 32, v)
    return v + 32 if 65 <= v <= 90 else v


def _upper(v):
    if isinstance(v, SymInt):
        r = _retable(v, str.upper)
        if r is not None:
            return r
        return s_ite(s_and(v >= 97, v <= 122), v - 32, v)
    return v - 32 if 97 <= v <= 122 else v


def _special_case_table(fn):
    return [(c, [ord(x) for x in fn(chr(c))]) for c in range(128, 0x110000)
            if not 0xd800 <= c <= 0xdfff and any(ord(x) < 128 for x in fn(chr(c)))]


_SPECIAL_LOWER = _special_case_table(str.lower)
_SPECIAL_UPPER = _special_case_table(str.upper)


class VByteArray(object):
    """mutable virtual bytearray"""

    def __init__(self, src=b'', encoding=None):
        if isinstance(src, (VBytes, VByteArray)):
            self._d = list(src._d)
        elif isinstance(src, (_rbytes, _rbytearray)):
            self._d = list(src)
        elif isinstance(src, SymInt):
            from .stubs import cur_state
            st = cur_state()
            if st is not None and st.get('symlen_bytearray'):
                neg = src < 0
                if (neg if isinstance(neg, bool) else cur().branch(neg.e)):
                    raise ValueError("negative count")
                self._symlen = src      # length-only placeholder (contents never touched by the sizing harness)
                self._d = []
            else:
                self._d = [0] * cur().concretize(src)
        elif isinstance(src, _rint):
            self._d = [0] * src
        elif isinstance(src, _rstr):
            self._d = list(src.encode(encoding))
        else:
            self._d = [_check_byte(v) for v in src]

    is_concrete = VBytes.is_concrete
    real = VBytes.real

    def __bytes__(self):
        return self.real()

    def __len__(self):
        return len(self._d)

    def __iter__(self):
        return iter(self._d)

    def __bool__(self):
        return len(self._d) > 0

    def __getitem__(self, i):
        if isinstance(i, slice):
            if is_sym(i.start) or is_sym(i.stop) or is_sym(i.step):
                i = _slice_indices(i, len(self._d))
            return VByteArray(VBytes._mk(self._d[i]))
        if isinstance(i, SymInt):
            v, i = _sym_index(self._d, i, 'bytearray')
            if v is not None:
                return v
            return _select(self._d, i)
        return self._d[i]

    def __setitem__(self, i, v):
        if isinstance(i, slice):
            self._d[i] = _items(v)
            return
        v = _check_byte(v)
        if isinstance(i, SymInt):
            cv, i = _sym_index(self._d, i, 'bytearray')
            if cv is None:
                lo = max(0, i.lo if i.lo is not None else 0)
                hi = min(len(self._d) - 1, i.hi if i.hi is not None else len(self._d) - 1)
                for k in range(lo, hi + 1):
                    self._d[k] = s_ite(i == k, v, self._d[k])
                return
        self._d[i] = v

    def __delitem__(self, i):
        del self._d[i]

    def append(self, v):
        self._d.append(_check_byte(v))

    def extend(self, it):
        self._d.extend(_items(it) if _is_byteslike(it) else [_check_byte(v) for v in it])

    def pop(self, i=-1):
        return self._d.pop(i)

    def insert(self, i, v):
        self._d.insert(i, _check_byte(v))

    def reverse(self):
        self._d.reverse()

    def __add__(self, o):
        if not _is_byteslike(o):
            raise TypeError("can't concat %s to bytearray" % type(o).__name__)
        return VByteArray(VBytes._mk(self._d + _items(o)))

    def __radd__(self, o):
        if not _is_byteslike(o):
            return NotImplemented
        return VBytes._mk(_items(o) + self._d)

    def __iadd__(self, o):
        self._d.extend(_items(o))
        return self

    def __mul__(self, n):
        if isinstance(n, SymInt):
            n = cur().concretize(n)
        return VByteArray(VBytes._mk(self._d * n))
    __rmul__ = __mul__

    __eq__ = VBytes.__eq__
    __ne__ = VBytes.__ne__
    __hash__ = None
    __contains__ = VBytes.__contains__
    hex = VBytes.hex
    decode = VBytes.decode
    find = VBytes.find
    index = VBytes.index
    startswith = VBytes.startswith
    endswith = VBytes.endswith
    __reversed__ = VBytes.__reversed__
    rfind = _SeqExtras.rfind
    rindex = _SeqExtras.rindex
    count = _SeqExtras.count

    def clear(self):
        del self._d[:]

    def copy(self):
        return VByteArray(VBytes._mk(list(self._d)))

    def remove(self, v):
        i = VBytes.find(self, v)
        if i < 0:
            raise ValueError("value not found in bytearray")
        del self._d[i]

    def strip(self, chars=None):
        return VByteArray(VBytes._mk(list(self._d)).strip(chars))

    def lstrip(self, chars=None):
        return VByteArray(VBytes._mk(list(self._d)).lstrip(chars))

    def rstrip(self, chars=None):
        return VByteArray(VBytes._mk(list(self._d)).rstrip(chars))

    def __repr__(self):
        if self.is_concrete():
            return repr(_rbytearray(self._d))
        return 'VByteArray<%d sym>' % len(self._d)


# ------------------------------------------------------------------------------------------
# VStr


class VStr(_SeqExtras, object):
    """virtual text: list of code points (int or SymInt).  tags[i] optional provenance."""

    def __init__(self, src=''):
        if isinstance(src, VStr):
            self._d = list(src._d)
        elif isinstance(src, _rstr):
            self._d = [ord(c) for c in src]
        else:
            self._d = list(src)

    @staticmethod
    def _mk(items):
        r = object.__new__(VStr)
        r._d = items
        return r

    def is_concrete(self):
        for v in self._d:
            if not isinstance(v, _rint):
                return False
        return True

    def real(self):
        if not self.is_concrete():
            raise EngineLeak("symbolic string passed where a concrete str is required")
        return ''.join(chr(v) for v in self._d)

    def __str__(self):
        return self.real()

    def __len__(self):
        return len(self._d)

    def __bool__(self):
        return len(self._d) > 0

    def __iter__(self):
        for v in self._d:
            yield VStr._mk([v])

    def __getitem__(self, i):
        if isinstance(i, slice):
            if is_sym(i.start) or is_sym(i.stop) or is_sym(i.step):
                i = _slice_indices(i, len(self._d))
            return VStr._mk(self._d[i])
        if isinstance(i, SymInt):
            v, i = _sym_index(self._d, i, 'string')
            if v is not None:
                return VStr._mk([v])
            return VStr._mk([_select(self._d, i)])
        return VStr._mk([self._d[i]])

    def __add__(self, o):
        if isinstance(o, _rstr):
            return VStr._mk(self._d + [ord(c) for c in o])
        if isinstance(o, VStr):
            return VStr._mk(self._d + o._d)
        return NotImplemented

    def __radd__(self, o):
        if isinstance(o, _rstr):
            return VStr._mk([ord(c) for c in o] + self._d)
        return NotImplemented

    def __mul__(self, n):
        if isinstance(n, SymInt):
            n = cur().concretize(n)
        return VStr._mk(self._d * n)
    __rmul__ = __mul__

    def __eq__(self, o):
        if isinstance(o, _rstr):
            od = [ord(c) for c in o]
        elif isinstance(o, VStr):
            od = o._d
        else:
            return NotImplemented
        if len(od) != len(self._d):
            return False
        return _eq_items(self._d, od)

    def __ne__(self, o):
        r = self.__eq__(o)
        if r is NotImplemented:
            return r
        return s_not(r)

    def __hash__(self):
        return 0

    def __contains__(self, x):
        xd = VStr(x)._d
        if len(xd) == 0:
            return True
        n = len(xd)
        if n == 1 and isinstance(xd[0], SymInt) and xd[0].tag is not None and xd[0].tag[0] == 'tbl' \
                and self.is_concrete() and xd[0].tag[1] == self.real():
            return True
        conds = [_eq_items(self._d[i:i + n], xd) for i in range(len(self._d) - n + 1)]
        r = s_or(*conds) if conds else False
        return r if isinstance(r, bool) else cur().branch(r.e)

    def __repr__(self):
        if self.is_concrete():
            return repr(self.real())
        return 'VStr<%d sym>' % len(self._d)

    def __mod__(self, args):
        return fmt(self, args)

    def _case(self, ascii_fn, special, real_fn):
        """str.lower / str.upper on code points: ASCII by arithmetic; non-ASCII code points whose image contains an ASCII
        character (KELVIN SIGN -> k, dotless i -> I, long s -> S, ligatures ...) exactly, from the interpreter's own tables;
        any other non-ASCII code point is mapped to itself (its true image is non-ASCII as well)"""
        out = []
        for v in self._d:
            if not isinstance(v, SymInt):
                out.extend(ord(c) for c in real_fn(chr(v)))
                continue
            if v.hi is not None and v.hi < 128:
                out.append(ascii_fn(v))
                continue
            small = v < 128
            if (small if isinstance(small, bool) else cur().branch(small.e)):
                out.append(ascii_fn(v))
                continue
            for cp, img in special:
                if v.lo is not None and cp < v.lo or v.hi is not None and cp > v.hi:
                    continue
                is_cp = v == cp
                if (is_cp if isinstance(is_cp, bool) else cur().branch(is_cp.e)):
                    out.extend(img)
                    break
            else:
                out.append(v)
        return VStr._mk(out)

    def lower(self):
        return self._case(_lower, _SPECIAL_LOWER, str.lower)

    def upper(self):
        return self._case(_upper, _SPECIAL_UPPER, str.upper)

    def find(self, sub, start=0):
        sd = VStr(sub)._d
        n = len(sd)
        if n == 1 and isinstance(sd[0], SymInt) and self.is_concrete() and start == 0:
            ch = sd[0]
            t = ch.tag
            if t is not None and t[0] == 'tbl' and t[1] == self.real() and len(set(self._d)) == len(self._d):
                return t[2]
            present = s_or(*[ch == c for c in self._d])
            if not (present if isinstance(present, bool) else cur().branch(present.e)):
                return -1
            r = len(self._d) - 1
            for i in range(len(self._d) - 2, -1, -1):
                r = s_ite(ch == self._d[i], i, r)
            return r
        for i in range(start, len(self._d) - n + 1):
            r = _eq_items(self._d[i:i + n], sd)
            if (r if isinstance(r, bool) else cur().branch(r.e)):
                return i
        return -1

    def rfind(self, sub):
        sd = VStr(sub)._d
        n = len(sd)
        for i in range(len(self._d) - n, -1, -1):
            r = _eq_items(self._d[i:i + n], sd)
            if (r if isinstance(r, bool) else cur().branch(r.e)):
                return i
        return -1

    def index(self, sub, start=0):
        r = self.find(sub, start)
        if not isinstance(r, SymInt) and r < 0:
            raise ValueError("substring not found")
        return r

    def startswith(self, p):
        pd = VStr(p)._d
        if len(pd) > len(self._d):
            return False
        r = _eq_items(self._d[:len(pd)], pd)
        return r if isinstance(r, bool) else cur().branch(r.e)

    def endswith(self, p):
        pd = VStr(p)._d
        if len(pd) > len(self._d):
            return False
        r = _eq_items(self._d[len(self._d) - len(pd):], pd)
        return r if isinstance(r, bool) else cur().branch(r.e)

    def join(self, it):
        out = []
        first = True
        for x in it:
            if not first:
                out.extend(self._d)
            first = False
            out.extend(VStr(x)._d)
        return VStr._mk(out)

    def _strip(self, chars, left, right):
        if chars is None:
            if not self.is_concrete():
                raise EngineLeak("strip() without chars on a symbolic VStr (Unicode whitespace table)")
            r = self.real()
            return VStr(r.strip() if left and right else (r.lstrip() if left else r.rstrip()))
        cd = VStr(chars)._d
        d = list(self._d)

        def member(v):
            r = s_or(*[v == c for c in cd]) if cd else False
            return r if isinstance(r, bool) else cur().branch(r.e)
        if left:
            while d and member(d[0]):
                d.pop(0)
        if right:
            while d and member(d[-1]):
                d.pop()
        return VStr._mk(d)

    def rstrip(self, chars=None):
        return self._strip(chars, False, True)

    def lstrip(self, chars=None):
        return self._strip(chars, True, False)

    def strip(self, chars=None):
        return self._strip(chars, True, True)

    def removeprefix(self, p):
        return self[len(p):] if self.startswith(p) else self

    def removesuffix(self, p):
        return self[:len(self) - len(p)] if len(p) and self.endswith(p) else self

    def encode(self, encoding='utf-8', errors='strict'):
        enc = encoding.lower().replace('-', '').replace('_', '')
        out = []
        for v in self._d:
            if isinstance(v, _rint):
                out.extend(chr(v).encode(encoding, errors))
                continue
            if enc == 'ascii':
                ok = v < 128
                if not (ok if isinstance(ok, bool) else cur().branch(ok.e)):
                    raise UnicodeEncodeError('ascii', '', 0, 1, 'ordinal not in range(128)')
                out.append(v)
                continue
            if enc not in ('utf8',):
                raise EngineLeak("encode(%s) of symbolic text" % encoding)
            out.extend(_utf8_encode(v))
        return VBytes._mk(out)

    def split(self, sep=None, maxsplit=-1):
        if self.is_concrete():
            return [VStr(p) for p in self.real().split(sep if sep is None else VStr(sep).real(), maxsplit)]
        raise EngineLeak("split of symbolic str")



def _utf8_encode(v):
    """UTF-8 bytes of a symbolic code point (forks on the length class)"""
    c1 = v < 0x80
    if (c1 if isinstance(c1, bool) else cur().branch(c1.e)):
        return [v]
    c2 = v < 0x800
    if (c2 if isinstance(c2, bool) else cur().branch(c2.e)):
        return [0xC0 | (v >> 6), 0x80 | (v & 0x3F)]
    c3 = v < 0x10000
    if (c3 if isinstance(c3, bool) else cur().branch(c3.e)):
        sur = s_and(v >= 0xD800, v <= 0xDFFF)
        if (sur if isinstance(sur, bool) else cur().branch(sur.e)):
            raise UnicodeEncodeError('utf-8', '', 0, 1, 'surrogates not allowed')
        return [0xE0 | (v >> 12), 0x80 | ((v >> 6) & 0x3F), 0x80 | (v & 0x3F)]
    return [0xF0 | (v >> 18), 0x80 | ((v >> 12) & 0x3F), 0x80 | ((v >> 6) & 0x3F), 0x80 | (v & 0x3F)]


# ------------------------------------------------------------------------------------------
# formatting and int parsing

OPAQUE = '<symx-opaque-format>'


def _any_sym(a):
    if isinstance(a, (SymInt, SymBool)):
        return True
    if isinstance(a, (VBytes, VByteArray, VStr)):
        return True
    if isinstance(a, (tuple, list)):
        return any(_any_sym(x) for x in a)
    return False


def hex_digits(n, width=0):
    """VStr of lower-case hex digits of a non-negative symbolic int (forks on digit count)"""
    if not isinstance(n, SymInt):
        return VStr(('%0' + str(width) + 'x') % n if width else '%x' % n)
    neg = n < 0
    if (neg if isinstance(neg, bool) else cur().branch(neg.e)):
        if width:
            raise EngineLeak("'%0Nx' of a negative symbolic int")
        # Python renders the sign followed by the digits of the magnitude
        return VStr._mk([45] + list(hex_digits(-n)._d))
    if n.hi is None:
        raise EngineLeak("'%x' of an unbounded int")
    if n.lia:
        from .core import find_repr
        known = find_repr(n.e, 16, n.lo, n.hi)
        if known is not None:
            # digits known through the representation lemma: drop leading zeros by looking at the digits themselves
            ds = list(known)
            while len(ds) > max(1, width):
                z = ds[-1] == 0
                if (z if isinstance(z, bool) else cur().branch(z.e)):
                    ds.pop()
                else:
                    break
            ds = ds + [0] * (max(1, width) - len(ds))
            out = []
            for i in range(len(ds) - 1, -1, -1):
                nib = ds[i]
                ch = s_ite(nib < 10, nib + 48, nib + 87)
                if isinstance(ch, SymInt):
                    ch.tag = ('hexd', n, i, ds)
                out.append(ch)
            return VStr._mk(out)
    maxd = max(1, (n.hi.bit_length() + 3) // 4)
    k = maxd
    while k > max(1, width):
        c = n >= (1 << (4 * (k - 1)))
        if (c if isinstance(c, bool) else cur().branch(c.e)):
            break
        k -= 1
    k = max(k, width, 1)
    out = []
    if n.lia:
        from .core import lia_digits
        ds = lia_digits(n, 16, k)
        for i in range(k - 1, -1, -1):
            nib = ds[i]
            ch = s_ite(nib < 10, nib + 48, nib + 87)
            if isinstance(ch, SymInt):
                ch.tag = ('hexd', n, i, ds)
            out.append(ch)
        return VStr._mk(out)
    for i in range(k - 1, -1, -1):
        nib = (n >> (4 * i)) & 15
        ch = s_ite(nib < 10, nib + 48, nib + 87)
        if isinstance(ch, SymInt):
            ch.tag = ('hexn', n, i)
        out.append(ch)
    return VStr._mk(out)


def fmt(f, args):
    """'fmt' % args with symbolic-aware handling of the two data formats the library uses"""
    if not _any_sym(args) and not isinstance(f, (VStr, VBytes)):
        try:
            return f % args
        except TypeError:
            return OPAQUE
    fs = f.real() if isinstance(f, (VStr,)) else f
    if isinstance(fs, VBytes):
        return OPAQUE
    a = args if isinstance(args, tuple) else (args,)
    if fs == '%x' and len(a) == 1:
        return hex_digits(a[0])
    if fs == '%064x' and len(a) == 1:
        return hex_digits(a[0], 64)
    if fs == '%i.%08i' and len(a) == 2:
        return _dec_digits(a[0], 0) + '.' + _dec_digits(a[1], 8)
    return OPAQUE


def _dec_digits(n, width):
    if not isinstance(n, SymInt):
        return VStr(('%0' + str(width) + 'i') % n if width else '%i' % n)
    if n.hi is None or n.lo is None or n.lo < 0:
        raise EngineLeak("'%i' of unbounded/negative symbolic int")
    maxd = max(1, len(str(n.hi)))
    k = maxd
    while k > max(1, width):
        c = n >= 10 ** (k - 1)
        if (c if isinstance(c, bool) else cur().branch(c.e)):
            break
        k -= 1
    k = max(k, width, 1)
    out = []
    for i in range(k - 1, -1, -1):
        dg = (n // (10 ** i)) % 10
        out.append(dg + 48)
    return VStr._mk(out)


def _hexval(ch):
    """value of one hex digit char (forks; raises ValueError on invalid)"""
    if isinstance(ch, _rint):
        c = chr(ch)
        if c in '0123456789abcdefABCDEF':
            return _rint(c, 16)
        raise ValueError("invalid hex digit")
    t = ch.tag
    if t is not None and t[0] == 'hexd':
        return t[3][t[2]]
    if t is not None and t[0] in ('hexn', 'hexb'):
        return None  # caller handles tagged digits
    d = s_and(ch >= 48, ch <= 57)
    if (d if isinstance(d, bool) else cur().branch(d.e)):
        return ch - 48
    lo = s_and(ch >= 97, ch <= 102)
    if (lo if isinstance(lo, bool) else cur().branch(lo.e)):
        return ch - 87
    up = s_and(ch >= 65, ch <= 70)
    if (up if isinstance(up, bool) else cur().branch(up.e)):
        return ch - 55
    raise ValueError("invalid hex digit")


def hex_pairs_to_bytes(chars):
    """list of hex-digit chars (even length) -> list of byte items, using provenance tags"""
    out = []
    for k in range(0, len(chars), 2):
        a, b = chars[k], chars[k + 1]
        ta = a.tag if isinstance(a, SymInt) else None
        tb = b.tag if isinstance(b, SymInt) else None
        if ta and tb and ta[0] == 'hexb' and tb[0] == 'hexb' and ta[1] is tb[1] and ta[2] == 1 and tb[2] == 0:
            out.append(ta[1])
            continue
        if ta and tb and ta[0] == 'hexn' and tb[0] == 'hexn' and ta[1] is tb[1] and ta[2] == tb[2] + 1 and tb[2] % 2 == 0:
            n = ta[1]
            out.append((n >> (4 * tb[2])) & 255)
            continue
        if ta and tb and ta[0] == 'hexd' and tb[0] == 'hexd':
            out.append(ta[3][ta[2]] * 16 + tb[3][tb[2]])
            continue
        va = _nib(a)
        vb = _nib(b)
        out.append(va * 16 + vb)
    return out


def _nib(ch):
    if isinstance(ch, SymInt) and ch.tag is not None:
        t = ch.tag
        if t[0] == 'hexd':
            return t[3][t[2]]
        if t[0] == 'hexn':
            return (t[1] >> (4 * t[2])) & 15
        if t[0] == 'hexb':
            return (t[1] >> 4) if t[2] == 1 else (t[1] & 15)
    return _hexval(ch)


def parse_int(s, base):
    if s.is_concrete():
        return _rint(s.real(), base)
    if base != 16:
        raise EngineLeak("int(symbolic str, %d)" % base)
    d = list(s._d)
    if len(d) >= 2 and d[0] == 48 and d[1] in (120, 88):
        d = d[2:]
    if not d:
        raise ValueError("invalid literal for int()")
    # drop concrete leading zeros to align pairs
    while len(d) > 1 and isinstance(d[0], _rint) and d[0] == 48:
        d = d[1:]
    if len(d) % 2:
        d = [48] + d
    bs = hex_pairs_to_bytes(d)
    r = 0
    for b in bs:
        r = r * 256 + b
    if isinstance(r, SymInt) and r.lia:
        from .core import register_repr
        register_repr(r, 256, bs[::-1])
    return r


# ------------------------------------------------------------------------------------------
# VBytesIO


class VBytesIO(object):
    def __init__(self, initial=b''):
        self._d = list(_items(initial)) if initial is not None else []
        self._pos = 0

    def read(self, n=-1):
        rem = len(self._d) - self._pos
        if rem < 0:
            rem = 0
        if n is None:
            n = -1
        if isinstance(n, SymInt):
            neg = n < 0
            if (neg if isinstance(neg, bool) else cur().branch(neg.e)):
                n = -1
            else:
                big = n >= rem
                if (big if isinstance(big, bool) else cur().branch(big.e)):
                    n = rem
                else:
                    n = cur().concretize(n)
        if n < 0 or n > rem:
            n = rem
        r = VBytes._mk(self._d[self._pos:self._pos + n])
        self._pos += n
        return r

    def write(self, b):
        bd = _items(b)
        if self._pos > len(self._d):
            self._d.extend([0] * (self._pos - len(self._d)))
        self._d[self._pos:self._pos + len(bd)] = bd
        self._pos += len(bd)
        return len(bd)

    def tell(self):
        return self._pos

    def seek(self, pos, whence=0):
        if isinstance(pos, SymInt):
            pos = cur().concretize(pos)
        if whence == 0:
            if pos < 0:
                raise ValueError("negative seek value %d" % pos)
            self._pos = pos
        elif whence == 1:
            self._pos = max(0, self._pos + pos)
        else:
            self._pos = max(0, len(self._d) + pos)
        return self._pos

    def getvalue(self):
        return VBytes._mk(list(self._d))

    def close(self):
        pass

    closed = False

    def flush(self):
        pass

    def readable(self):
        return True
    writable = seekable = readable

    def read1(self, n=-1):
        return self.read(n)

    def readinto(self, buf):
        got = self.read(len(buf))
        for i, v in enumerate(got._d):
            buf[i] = v
        return len(got)

    def truncate(self, size=None):
        size = self._pos if size is None else size
        if isinstance(size, SymInt):
            size = cur().concretize(size)
        if size < len(self._d):
            del self._d[size:]
        return size

    def getbuffer(self):
        return VByteArray(VBytes._mk(list(self._d)))

    def readline(self, size=-1):
        i = self._pos
        while i < len(self._d):
            nl = self._d[i] == 10
            i += 1
            if (nl if isinstance(nl, bool) else cur().branch(nl.e)):
                break
        return self.read(i - self._pos)

    def __enter__(self):
        return self

    def __exit__(self, *a):
        return False
