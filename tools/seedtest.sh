#!/bin/bash
# usage: tools/seedtest.sh C01 A [check-prop ...]   verifies a seeded change in its scratch worktree, stores it under /verif/seeded, runs our check(s) on /repo with it
P=$1; V=$2; shift 2
CHECKS=${@:-$P}
W=/tmp/seed_$P
D=/verif/seeded/$P-$V${SEEDTAG:+-$SEEDTAG}
cd $W || exit 2
git checkout -q -- . 
r0=$(PYTHONPATH=. timeout 300 /venv/bin/python _seed/${V}_demo.py >/dev/null 2>&1; echo $?)
git apply _seed/$V.diff || { echo "patch does not apply"; exit 2; }
t=$(timeout 600 /venv/bin/python -m pytest -q -p no:cacheprovider bitcoin/tests 2>&1 | tail -1)
r1=$(PYTHONPATH=. timeout 300 /venv/bin/python _seed/${V}_demo.py >/dev/null 2>&1; echo $?)
git checkout -q -- .
echo "$P-$V: demo unpatched rc=$r0, patched rc=$r1, suite: $t"
mkdir -p $D; cp _seed/$V.diff $D/patch.diff; cp _seed/${V}_demo.py $D/demo.py
cd /repo && git apply $D/patch.diff || { echo "patch does not apply to /repo"; exit 2; }
res=""
for c in $CHECKS; do
  out=$(cd /verif && timeout 3000 ./check $c --tier quick --no-evidence 2>&1)
  rc=$?
  nv=$(echo "$out" | grep -c "^VIOLATION")
  first=$(echo "$out" | grep "^VIOLATION" | head -1 | sed 's/.*replay=//')
  lab=$(echo "$out" | grep "^  label=" | head -1 | cut -c1-160)
  echo "   check $c: rc=$rc violations=$nv $lab"
  res="$res $c:rc=$rc:violations=$nv"
done
cd /repo && git checkout -q -- .
python3 - "$P" "$V" "$r0" "$r1" "$t" "$res" <<'PY'
import json,sys
P,V,r0,r1,t,res=sys.argv[1:7]
notes=open('/tmp/seed_%s/_seed/NOTES.md'%P).read()
json.dump(dict(property=P, variant=V, breaks=P, needs='see notes (sub-agent description)', notes=notes[:6000],
   verified=dict(demo_rc_unpatched=int(r0), demo_rc_patched=int(r1), suite_with_patch=t,
                 ran='git apply in scratch worktree; pytest bitcoin/tests; demo.py; git checkout; then applied to /repo, ran ./check, reverted'),
   checks=res.strip()), open('/verif/seeded/%s-%s%s/meta.json'%(P,V,("-"+__import__("os").environ["SEEDTAG"]) if __import__("os").environ.get("SEEDTAG") else ""),'w'), indent=1)
PY
