"""ad-hoc: explore one harness instance single-process and print stats.  usage: prof.py PROP HARNESS 'json-params' [max_seconds]"""
import sys, time, json, importlib
sys.path.insert(0, '/verif')
from symx import core, loader, ctx as ctxmod
prop = importlib.import_module('props.' + sys.argv[1])
lib = loader.Lib()
SymCtx = ctxmod.make_symctx_class()
params = json.loads(sys.argv[3]) if len(sys.argv) > 3 else {}
fn = prop.HARNESSES[sys.argv[2]]
def run(ex):
    lib.reset()
    lib['bitcoin'].SelectParams('mainnet')
    fn(SymCtx(ex, lib), **params)
ex = core.Explorer(run, max_paths=10**7, max_seconds=float(sys.argv[4]) if len(sys.argv) > 4 else 300, inc_timeout_ms=int(sys.argv[5]) if len(sys.argv) > 5 else 8000)
t = time.time()
print(ex.run(), '%.1fs' % (time.time() - t))
d = ex.stats.as_dict(); d.pop('labels'); print(d)
for c in ex.cex[:3]:
    print('CEX', c.label, c.inputs, c.detail)
