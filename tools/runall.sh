#!/bin/bash
# tools/runall.sh quick|thorough [ids...]  -> runs the checks sequentially, prints one summary line each
tier=$1; shift
ids=${@:-C01 C02 C03 C04 C05 C06 C07 C08 C09 C10 C11 C12 C14 C15 C16 C17 C18 C19 C20}
cd /verif
for p in $ids; do
  s=$(date +%s)
  out=$(timeout 14000 ./check $p --tier $tier 2>&1); rc=$?
  e=$(date +%s)
  echo "$p rc=$rc $((e-s))s :: $(echo "$out" | grep -E "^$p $tier" | tail -1)"
  echo "$out" | grep -E "VIOLATION|KNOWN-FINDING|ENGINE-|INCONCLUSIVE" | cut -c1-220 | head -5
done
