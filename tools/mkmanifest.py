#!/usr/bin/env python3
"""Regenerates /verif/MANIFEST.json from the table below (keeps it valid at all times)."""
import json, os
V = os.path.dirname(os.path.dirname(os.path.abspath(__file__)))
props = [json.loads(l) for l in open(os.path.join(V, 'properties.jsonl'))]
ids = [p['id'] for p in props]

# id -> (level text, note, technique, design section)
CLAIMED = {}
NA = {}
exec(open(os.path.join(V, 'tools', 'claims.py')).read())

checks = []
for i in ids:
    if i in CLAIMED:
        c = CLAIMED[i]
        checks.append(dict(
            property_id=i,
            quick_cmd='./check %s --tier quick' % i,
            thorough_cmd='./check %s --tier thorough' % i,
            evidence_file='/verif/evidence/%s.json' % i,
            replay_cmd_template='./check %s --replay {path}' % i,
            engine='symx',
            level_claimed=dict(category='model_checking', text=c['text'], design_ref=c.get('ref', 'DESIGN.md section 5 ' + i)),
            level_note=c['note'],
            technique=c.get('technique', 'bounded symbolic execution of the real Python source on z3 proxies; SMT verdict per path obligation'),
        ))
m = dict(
    version=1,
    setup_cmd='python3-vt /verif/symx/selftest.py',
    hooks=dict(guard='PYTHON_BITCOINLIB_VERIF', enable='none needed: the shadow loader instruments /repo at load time; no source hooks',
               baseline_off_cmd='cd /repo && /venv/bin/python -m pytest -ra -q -p no:cacheprovider --timeout=900 --continue-on-collection-errors',
               source_commits=[], add_only=True),
    engines=[dict(name='symx', path='/verif/symx', serves_properties=sorted(CLAIMED),
                  kind_free_text='symbolic execution of the real /repo Python source (shadow-loaded on z3-backed int/bytes/str proxies), '
                                 'path exploration with incremental SMT queries (z3 5.1), counterexample replay on the plain import')],
    checks=checks,
    notes='See DESIGN.md. exit 0 = all obligations discharged within stated bounds; 1 = VIOLATION (replayed on the real import); 2 = inconclusive/engine error.',
    not_applicable=[dict(property_id=i, reason=NA[i]) for i in ids if i not in CLAIMED],
)
for i in ids:
    assert i in CLAIMED or i in NA, i
json.dump(m, open(os.path.join(V, 'MANIFEST.json'), 'w'), indent=1)
print('claimed', sorted(CLAIMED), 'na', sorted(set(ids) - set(CLAIMED)))
