# executed by mkmanifest.py
_T = 'bounded symbolic model checking of the real source: '
CLAIMED['C17'] = dict(
    text=_T + 'compact decode/encode and CheckProofOfWork are decided by z3 for ALL 2^32 compact values, ALL 256-bit integers and ALL 32-byte hashes '
         'against the Core SetCompact/GetCompact definition, per chain; nothing inside those ranges is outside the claim.',
    note='trusts z3, the struct stub (exact model of unpack "<IIIIIIII"), and the reference definition in refs/ref_codec.py; CPython int semantics as modelled by SymInt.')
_UC = 'check not built yet in this round (engine exists; harness pending) - will be claimed or declared not applicable with its real reason'
for _i in ['C01','C02','C03','C04','C05','C06','C07','C08','C09','C10','C11','C12','C14','C15','C16','C18','C19','C20']:
    NA[_i] = _UC
NA['C13'] = ('key derivation, signing, verification and point validity are computed by OpenSSL through ctypes: there is no Python or IR to execute '
             'symbolically, and the reference (secp256k1 group law, 256-bit modular inversion) is non-linear 256-bit arithmetic out of reach of z3/cvc5')
