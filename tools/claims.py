# executed by mkmanifest.py
_T = 'bounded symbolic model checking of the real source: '
CLAIMED['C17'] = dict(
    text=_T + 'compact decode/encode and CheckProofOfWork are decided by z3 for ALL 2^32 compact values, ALL 256-bit integers and ALL 32-byte hashes '
         'against the Core SetCompact/GetCompact definition, per chain; nothing inside those ranges is outside the claim.',
    note='trusts z3, the struct stub (exact model of unpack "<IIIIIIII"), and the reference definition in refs/ref_codec.py; CPython int semantics as modelled by SymInt.')
CLAIMED['C01'] = dict(
    text=_T + 'per transaction/header/block shape (counts and lengths concrete, every field value and byte symbolic over its full wire range) '
         'the serialised bytes equal an independent reference encoder, the round trip restores every field, every tried strict prefix raises '
         'exactly the truncation error and every 1/2/9-byte symbolic extension raises the extra-data error carrying object and padding; '
         'CompactSize codec decided for all i < 2^64.',
    note='shapes (n_in<=3, n_out<=3, lengths at CompactSize boundaries) are the bound; struct/BytesIO stubs are exact models; trusts z3 and refs/ref_wire.py.')
CLAIMED['C02'] = dict(
    text=_T + 'txid / wtxid / block hash are compared with double-SHA256 (uninterpreted function with congruence) of the reference encodings, '
         'for two independent symbolic witness assignments per transaction; mutable/immutable twins compared on serialisation, identifiers, ==, hash().',
    note='SHA-256 is an uninterpreted function: equality of digests is decided through equality of pre-images (complete modulo real collisions); bounds as C01.')
CLAIMED['C15'] = dict(
    text=_T + 'for every leaf count in the bound with 32 symbolic bytes per leaf the returned root is the reference tree term over the same '
         'uninterpreted hash; witness root, constructor root check (symbolic declared root) and weights compared with reference definitions.',
    note='SHA-256 uninterpreted (congruence only): equality of nested hash terms decides tree shape/leaf order for all leaf values; counts 1..70.')
CLAIMED['C03'] = dict(
    text=_T + 'for every tx shape (n_in<=3, n_out<=3), input index 0..n_in, subscript token shape and a SYMBOLIC hash-type byte (all 256 values), '
         'the digest returned by RawSignatureHash/SignatureHash equals double-SHA256(UF) of the pre-image built by an independent Satoshi-algorithm reference; '
         'HASH_ONE/ValueError exactly in the two historical cases; txTo serialisation unchanged.',
    note='SHA-256 uninterpreted; subscripts limited to <=3 (quick) / <=4 (thorough) tokens incl. OP_CODESEPARATOR inside push data; documented precondition of SignatureHash assumed.')
CLAIMED['C04'] = dict(
    text=_T + 'BIP143 digest compared with double-SHA256(UF) of an independent BIP143 pre-image for symbolic hash-type byte, amount 0..2^63-1 and all fields '
         'over their full wire range (this is what exposed the signed nLockTime packing, now fixed); no exception on any in-range value.',
    note='SHA-256 uninterpreted incl. hashPrevouts/hashSequence/hashOutputs; script-code lengths {0,1,3,0xfc,0xfd,0x100}; n_in<=3, n_out<=3.')
CLAIMED['C20'] = dict(
    text=_T + 'MurmurHash3 equals the reference x86_32 algorithm for ALL 32-bit seeds and ALL data of every length 0..24 (quick) / 0..40 (thorough); '
         'insert/contains/serialise decided against the BIP37 schedule for symbolic filter contents, tweak, flags and elements; empty-data filters; '
         'size and hash-count caps decided in IEEE double arithmetic (cvc5 QF_BVFP) for every element count up to 2^40 and every negative finite logarithm value.',
    note='filter-logic instances with more than one hash function or non-power-of-two sizes treat MurmurHash3 as one uninterpreted function on both sides '
         '(compositional with the murmur harness); math.log modelled as an arbitrary negative finite double; trusts z3/cvc5 FP semantics.',
    technique='bounded symbolic execution of the real Python source on z3 proxies; BV queries by z3, floating-point sizing queries by cvc5')
CLAIMED['C08'] = dict(
    text=_T + 'number codec decided for ALL integers |v| < 2^71 and all minimal strings <= 9 bytes (bijection within the bound); script building / cooked '
         'iteration / rebuild for token lists <= 3 tokens with symbolic opcodes, ints and boundary-length pushes; and for ALL byte strings of every length '
         '0..4 (quick) / 0..5 (thorough) raw iteration, every predicate and both sigop counts equal an independent tokeniser (exposed the GetSigOpCount defects, now fixed).',
    note='longer arbitrary scripts are outside the claim (template-shaped 22..43-byte scripts are covered for the fixed-offset predicates); struct stub exact; '
         'has_canonical_pushes judged against Bitcoin Core 0.9 HasCanonicalPushes.')
CLAIMED['C10'] = dict(
    text=_T + 'decode(encode(b)) == b and digit-by-digit agreement with the big-integer definition for ALL byte strings of length 0..24 (quick) / 0..40 (thorough) '
         'and every leading-zero count; encode(decode(s)) == s for all alphabet strings up to 8/12 characters; arbitrary code point => InvalidBase58Error; '
         'Base58Check acceptance decided on decoded strings of every length 0..40 with checksum = H(rest)[:4] + symbolic delta, all 4-byte strings exactly (found the 7415e100 defect, now fixed).',
    note='integers in z3 linear integer arithmetic with fresh quotient/remainder/digit variables; engine theory lemma "solver-proved equal numbers have equal digits"; '
         'Base58Check harnesses are compositional over decode/encode; double-SHA256 uninterpreted except exact tables for <= 12 symbolic input bits.')
CLAIMED['C11'] = dict(
    text=_T + 'the lifted loop body of bech32_polymod is proved (all 30-bit states, all 5-bit values) equal to the BCH remainder step derived from the BIP173 '
         'generator polynomial over GF(32) and GF(2)-linear; by that linearity every error pattern on every position set of size 1 and 2 (quick) / 3 and 4 (thorough) '
         'of 39- and 59-symbol data parts is shown to have a non-zero syndrome (solver query per set over all error values); encode/decode compared with an independent '
         'BIP173 reference for symbolic programs (all lengths 2..40, versions 0..16), symbolic short strings over all code points, and address-length strings with '
         'symbolic payload and checksum-delta.',
    note='whole-run claim from the step lemma uses a stated paper induction (function structure checked on the AST each run); GF(2)-affine normal forms in the engine decide checksum identities syntactically; '
         'substitutions in the human-readable part/separator and >=5 substitutions are outside the claim.',
    technique='bounded symbolic execution of the real Python source on z3 proxies; kernel lifting of the polymod loop body + step lemmas; per-position-set SMT queries for error detection')
CLAIMED['C16'] = dict(
    text=_T + 'CheckTransaction outcome compared with an independent rule predicate for all int64 output values, symbolic prevouts (duplicates / null reachable by the solver), '
         'coinbase script lengths {0,1,2,100,101}, per chain; CheckBlock / CheckBlockHeader outcome compared with a Core/BIP141 reference on blocks of 1..3 transactions '
         'deserialised from reference bytes with symbolic fields, merkle root and witness commitment offered as reference value + symbolic delta, sigops at 19 999/20 000/20 001, '
         'coinbase-witness shapes; every rejection must be a ValidationError (exposed the coinbase-not-checked and IndexError defects, now fixed).',
    note='SHA-256 uninterpreted; block shapes are the bound (<=3 txs); scripts are concrete filler except in the sigop / symbolic-script shapes; size/weight limits one shape per side; PoW exactness is C17.')
CLAIMED['C18'] = dict(
    text=_T + 'for each of the 17 message types (symbolic scalar fields over wire ranges, vectors of 0..2 entries, IPv4 and IPv6, tx/blocks from C01 shapes) and each chain: '
         'to_bytes equals an independent reference frame (magic, padded command, length, checksum, protocol payload layout), from_bytes restores type and fields, re-framing identical, '
         'every truncation raises the truncation error; streams of <= 3 frames keep order and exact positions; frames with symbolic magic / ALL 2^32 length values / symbolic checksum and '
         'payload are judged against the reference frame rule including "never reads beyond the frame" (exposed the signed length field and the headers layout, both fixed).',
    note='SHA-256 uninterpreted (checksum rule judged over the same function symbol); inet_ntop/pton uninterpreted inverse pair; command-field corruption outside the claim; msg_version for nVersion >= 70001.')
CLAIMED['C06'] = dict(
    text=_T + 'product execution of the library interpreter and an independent reference interpreter (after Bitcoin Core) on the same symbolic state: every opcode byte value '
         '(solver-forked) from symbolic stacks of depth 0..6, numeric operands of all length combinations in {0,1,2,4,5}, executed/unexecuted branches, flag values, '
         'control-flow skeletons, the four limits at their exact bounds, signature opcodes with oracle-predicate signatures, and VerifyScript under the admissible flag subsets incl. P2SH; '
         'obligation: both fail, or both succeed with equal final stacks / equal accept-reject (exposed the b\'\\x00\' false value and the unchecked data-push stack limit, both fixed).',
    note='programs are bounded (1 symbolic opcode + context in quick; 2 symbolic bytes in thorough); ECDSA is an oracle predicate; hash opcodes uninterpreted on both sides; '
         'RawSignatureHash inside CHECKSIG is shared with the reference (its exactness is C03).')
CLAIMED['C07'] = dict(
    text=_T + 'VerifyScript on arbitrary symbolic byte strings (all 256^n values) as scriptSig x scriptPubKey for the stated small lengths, structured long inputs '
         '(PUSHDATA1/2/4 with symbolic length fields over up to 10 001 bytes, headers truncated at every position, P2SH-shaped scriptPubKey with arbitrary redeem bytes, '
         'signature opcodes with in- and out-of-range input index), symbolic mutable/immutable transactions and the admissible flag subsets: on every path the outcome is a normal return '
         'or an exception derived from ValidationError (anything else escapes the harness and is reported after replay), the transaction and scripts are unchanged terms, '
         'and the state captured in an EvalScriptError is within the interpreter limits.',
    note='OpenSSL is an oracle stub (exceptions inside OpenSSL outside the claim); termination by construction per explored path; lengths of arbitrary strings are the bound.')
CLAIMED['C09'] = dict(
    text=_T + 'bounded histories over a 16-operation alphabet (field assignments, input/output append/replace/remove, witness replacement, immutable snapshot, mutable copy, edit of a copy, '
         'identifier computation, signature hashing, script verification) with symbolic operation selectors and operands, run against a ghost model: after every step every live object '
         '(mutable, snapshots, copies) must serialise / identify / compare / hash as its ghost; plus setattr/delattr on every slot of every immutable class raising AttributeError and cached identifiers == recomputed.',
    note='history length is the bound (quick: all of length 2 and the snapshot/copy-first histories of length 3); SHA-256 uninterpreted, hash() compared through its argument.')
CLAIMED['C12'] = dict(
    text=_T + 'for every chain history of <= 3 SelectParams calls and every standard template with fully symbolic 20/32-byte payload: script -> address -> text -> address -> script is the identity '
         'with class, version byte / hrp and payload as prescribed for the final chain; non-canonical-push and bare compressed-pubkey variants map to the P2PKH address of the key hash; every '
         'cross-chain text (chains with different prefixes), every witness version 1..16, Base58Check payload lengths 0..34 with known/symbolic version bytes and arbitrary short strings are '
         'refused with CBitcoinAddressError (exposed the AssertionError and the payload-length defects, both fixed; bare uncompressed pubkey is a recorded known finding).',
    note='base58 text is an opaque object in the symbolic run (compositional with C10); mutual exclusivity of the two text formats assumed (2^-32); hashes uninterpreted.')
CLAIMED['C14'] = dict(
    text=_T + 'REDUCED SCOPE: the message digest equals double-SHA256 of varstr(magic) || varstr(UTF-8(message)) for symbolic text over all of Unicode (0..3/4 code points, and 252/253/300-byte messages); '
         'SignMessage output is base64 of 65 bytes whose header is 27 + recid + 4*compressed for a symbolic recid and (r,s); VerifyMessage passes r, s, digest, recid and the compression flag to recovery '
         'and returns true iff the recovered key hashes to the given address. The concrete twin (witness validation / replay) runs the real OpenSSL path: sign, verify for the signer, reject other address / other message.',
    note='that recovery of a genuine signature returns the signer key is an ASSUMPTION of the symbolic run (OpenSSL behind ctypes, not decidable here); see DESIGN.md section 6.')
CLAIMED['C05'] = dict(
    text=_T + 'MODULO AN IDEALISED ECDSA: for P2PK, P2PKH, 1-of-2 and 2-of-3 multisig and their P2SH wrappings, a 3-input/3-output symbolic transaction, every signing position, '
         'a symbolic hash-type byte within each class ({ALL,NONE,SINGLE} x {,ANYONECANPAY}, undefined) and an 18-entry edit catalogue: the input signed over the reference sighash is accepted by VerifyScript, '
         'a signature by another key is rejected, and after the edit (new value symbolic, assumed different) verification fails exactly when an explicit reference commitment table says the edit is committed. '
         'The concrete twin signs with the real CKey and verifies with real OpenSSL.',
    note='the ECDSA contract (a signature verifies for exactly the key and digest it was made for, distinct signing events give distinct signatures) is an assumption of the symbolic run; '
         'double-SHA256 collision-free on the path; mutations inside key.py are not detected by the symbolic run (C13 not applicable), only by the concrete twin.')
CLAIMED['C19'] = dict(
    text=_T + 'bitcoin.rpc run against a scripted connection with json/decimal modelled: every received-amount site returns exactly m for the wire text m*10^-8 with m symbolic over 0..21e14 '
         '(a dropped parse_float turns the conversion into IEEE arithmetic and the solver returns a concrete amount such as 0.29 BTC); sent amounts are exactly the correctly rounded double a/1e8; '
         '32-byte hashes cross lx/b2lx so that a returned hash is sent back as the same text; transactions and headers cross the hex encoding bit-exactly; error replies with a symbolic code raise the '
         'registered class, malformed replies raise JSONRPCError, ids strictly increase.',
    note='json, decimal and HTTP are stubs by contract (value trees, parse_float honoured); the step from "correctly rounded quotient" to "JSON text denotes exactly a satoshis" is a stated paper argument '
         '(relative error 2^-53 < half a satoshi; shortest repr); only the listed RPC methods are covered.',
    technique='bounded symbolic execution of the real Python source on z3 proxies; floating-point obligations by cvc5 (QF_BVFP)')
_UC = 'check not built yet in this round (engine exists; harness pending) - will be claimed or declared not applicable with its real reason'
NA['C13'] = ('key derivation, signing, verification and point validity are computed by OpenSSL through ctypes: there is no Python or IR to execute '
             'symbolically, and the reference (secp256k1 group law, 256-bit modular inversion) is non-linear 256-bit arithmetic out of reach of z3/cvc5')

# call-sequence ("history") obligations added after the seeded-change rounds: several calls on ONE symbolic path
_H = {
    'C01': 'Call orders: stripped serialisation / GetWeight before the full serialisation on one object; blocks whose only witness-carrying transaction is the first.',
    'C02': 'Call sequences: identifier, in-place edit, identifier again on one mutable object; blocks from the wire whose root field is zero or arbitrary.',
    'C03': 'Call sequences: two digests with two symbolic hash types at two positions plus a repeat of the first, on one transaction object.',
    'C04': 'Call sequences: digest, in-place edit of existing inputs/outputs (same object, same list lengths), digest again; then after an append.',
    'C05': 'Call sequences: two independently signed inputs of one transaction object verified alternately; two signature checks in one script.',
    'C10': 'Call sequences: a refused text is refused again, so is another text with the same character, and valid text still decodes afterwards; 27 fixed texts with line ends / blanks / look-alike digits are concrete runs.',
    'C11': 'Call sequences: a mixed-case rendering of a just-decoded address is refused; one arbitrary code point (whole Unicode range) inside an otherwise valid upper-case address.',
    'C12': 'Call sequences: the same script / the same text under two chains in one process (text parsed under its own chain first); mixed-case and one-non-ASCII-code-point renderings of a valid address are refused.',
    'C14': 'Call sequences: compressed- and uncompressed-key verifications in either order in one process (symbolic: compression flag seen by the recovery; concrete twin: real OpenSSL).',
    'C15': 'Call sequences: a block built from mutable transactions that the caller edits afterwards still describes block.vtx.',
    'C17': 'Call sequences: the same nBits under two chains in one process.',
    'C18': 'Call sequences: framing the same message again after a chain switch.',
}
for _k, _v in _H.items():
    CLAIMED[_k]['text'] = CLAIMED[_k]['text'] + ' ' + _v
