#!/bin/sh
# usage: tools/mut.sh FILE 's/old/new/' PROP [extra args]   -- applies sed to /repo/FILE, runs check, reverts
f=$1; e=$2; p=$3; shift 3
cd /repo && sed -i "$e" "$f" && git diff --stat | tail -1
cd /verif && ./check $p --tier quick --no-evidence "$@" 2>&1 | grep -E "VIOLATION|ENGINE|INCONC|quick:" | cut -c1-250 | head -8; true
cd /repo && git checkout -- .
