"""C11 - bech32 segwit addresses: BIP173 codec and guaranteed corruption detection."""
import itertools
from refs import ref_bech32 as RB

ID = 'C11'
FUNCTIONS = ['segwit_addr.bech32_polymod (whole function and lifted loop body)', 'segwit_addr.bech32_hrp_expand',
             'segwit_addr.bech32_verify_checksum', 'segwit_addr.bech32_create_checksum', 'segwit_addr.bech32_encode',
             'segwit_addr.bech32_decode', 'segwit_addr.convertbits', 'segwit_addr.encode', 'segwit_addr.decode',
             'bech32.CBech32Data.__new__/from_bytes/__str__']
ASSUMPTIONS = ['error detection: paper step (stated): bech32_polymod is init 1, a for loop over the values whose body is the lifted step, '
               'return chk (structure checked on the AST every run); with the solver-proved step linearity the syndrome of an error pattern '
               'is the XOR of per-position linear maps, which are evaluated with the library\'s own polymod on unit vectors']
STUBS = []
OUTSIDE = ['five or more substitutions', 'substitutions in the human-readable part or of the separator (they change the expected-prefix comparison, '
           'covered by the acceptance harness only for short strings)', 'symbolic strings longer than 14 (quick) / 18 (thorough) characters '
           'other than address-length strings with a concrete prefix']
EXPECTED_LABELS = ['step: lifted body == BCH remainder step from g(x)', 'step: GF(2)-linear', 'detect: no error pattern on this position set has zero syndrome',
                   'encode == BIP173 reference', 'decode(encode) returns version and program', 'accept: decode == BIP173 reference']
HRPS = ['bc', 'tb', 'bcrt', 'x', 'a1z']


def bounds(tier):
    return dict(step='all 30-bit states and 5-bit values', detect='data-part lengths 39 and 59 (P2WPKH/P2WSH): every position set of size 1, 2%s; '
                'error values symbolic (all 31^k non-zero patterns per set)' % ('' if tier == 'quick' else ', 3 (all sets at lengths 39 and 59) and 4 (length 39, every 2nd set in lexicographic order)'),
                codec='hrp in %s, versions 0..16, program lengths 2..40, all program bytes symbolic' % HRPS,
                accept='all strings of length 8..%d over all code points under each of bc/tb/bcrt; address-length strings with symbolic data part'
                       % 12)


def _lifted(ctx):
    from symx import lift
    step, info = lift.lift_for_body(ctx.lib, 'bitcoin.segwit_addr', 'bech32_polymod', ['chk'])
    return (lambda chk, v: step(chk, v)[0]), info


def h_step(ctx):
    if not ctx.symbolic:
        return
    step, info = _lifted(ctx)
    # structure of the enclosing function: chk = 1 before, return chk after
    ctx.check(any(p.replace(' ', '') == 'chk=1' for p in info['prelude']) and [a.replace(' ', '') for a in info['after']] == ['returnchk'],
              'step: polymod is  chk=1; for value in values: <step>; return chk')
    a = ctx.int('a', 0, (1 << 30) - 1)
    b = ctx.int('b', 0, (1 << 30) - 1)
    v = ctx.int('v', 0, 31)
    w = ctx.int('w', 0, 31)
    sa = step(a, v)
    ctx.check(sa == RB.step(ctx, a, v), 'step: lifted body == BCH remainder step from g(x)')
    ctx.check(ctx.and_(sa >= 0, sa < (1 << 30)), 'step: state stays below 2^30')
    ctx.check(step(a ^ b, v ^ w) == (sa ^ step(b, w)), 'step: GF(2)-linear')
    SA = ctx.mod('bitcoin.segwit_addr')
    # whole function on short symbolic inputs agrees with folding the step
    vals = [ctx.int('x%d' % i, 0, 31) for i in range(4)]
    acc = 1
    for x in vals:
        acc = step(acc, x)
    ctx.check(SA.bech32_polymod(vals) == acc, 'step: polymod == fold(step, 1, values)')


def h_detect(ctx, n, hrp, positions):
    """no non-zero error values on `positions` (data part, length n incl. checksum) give syndrome 0"""
    SA = ctx.mod('bitcoin.segwit_addr')
    pre = RB.hrp_expand(hrp)
    base = SA.bech32_polymod(pre + [0] * n)
    es = []
    syn = 0
    for k, p in enumerate(positions):
        e = ctx.int('e%d' % k, 1, 31)
        es.append(e)
        for bit in range(5):
            unit = [0] * n
            unit[p] = 1 << bit
            col = SA.bech32_polymod(pre + unit) ^ base       # library's own polymod on a unit vector (concrete)
            syn = syn ^ ctx.ite(((e >> bit) & 1) == 1, col, 0)
    ctx.check(syn != 0, 'detect: no error pattern on this position set has zero syndrome')


def h_detect_batch(ctx, n, hrp, sets):
    for ps in sets:
        h_detect_one(ctx, n, hrp, ps)


_cols = {}


def h_detect_one(ctx, n, hrp, positions):
    SA = ctx.mod('bitcoin.segwit_addr')
    key = (n, hrp, ctx.symbolic)
    if key not in _cols:
        pre = RB.hrp_expand(hrp)
        base = SA.bech32_polymod(pre + [0] * n)
        cols = []
        for p in range(n):
            cp = []
            for bit in range(5):
                unit = [0] * n
                unit[p] = 1 << bit
                cp.append(SA.bech32_polymod(pre + unit) ^ base)
            cols.append(cp)
        _cols[key] = cols
    cols = _cols[key]
    syn = 0
    tag = '_'.join(str(p) for p in positions)
    for k, p in enumerate(positions):
        e = ctx.int('e%s_%d' % (tag, k), 1, 31)
        for bit in range(5):
            syn = syn ^ ctx.ite(((e >> bit) & 1) == 1, cols[p][bit], 0)
    ctx.check(syn != 0, 'detect: no error pattern on this position set has zero syndrome')


def h_detect_e2e(ctx, hrp, plen, positions):
    """end-to-end twin of the matrix argument on a short address: corrupt a real encoding, the library must reject"""
    SA = ctx.mod('bitcoin.segwit_addr')
    prog = ctx.bytes('prog', plen)
    addr = SA.encode(hrp, 1, prog)
    ctx.check(addr is not None, 'encode succeeds')
    chars = [addr[i] for i in range(len(addr))]
    start = len(hrp) + 1
    for k, p in enumerate(positions):
        d = ctx.int('d%d' % k, 1, 31)
        old = ctx.str_index(RB.CHARSET, chars[start + p])
        chars[start + p] = ctx.str_from_table(RB.CHARSET, [old ^ d])
    bad = ctx.str_concat(*chars)
    ctx.check(SA.decode(hrp, bad) == (None, None), 'detect: corrupted address rejected end-to-end')


def h_codec(ctx, hrp, ver, plen):
    SA = ctx.mod('bitcoin.segwit_addr')
    prog = ctx.bytes('prog', plen)
    s = SA.encode(hrp, ver, prog)
    valid_v0 = (ver != 0) or plen in (20, 32)
    if not valid_v0:
        ctx.check(s is None, 'encode refuses version-0 programs that are not 20 or 32 bytes')
        return
    if not ctx.check(s is not None, 'encode succeeds'):
        return
    ref = RB.encode_address(ctx, hrp, ver, [prog[i] for i in range(plen)])
    want = ctx.str_concat(hrp + '1', ctx.str_from_table(RB.CHARSET, ref))
    if ctx.check(len(s) == len(want), 'encode length'):
        ctx.check(s == want, 'encode == BIP173 reference')
    ctx.check(s.lower() == s, 'encode is lower case')
    got = SA.decode(hrp, s)
    ok = got[0] is not None and got[0] == ver
    if ok is not False and got[1] is not None and len(got[1]) == plen:
        ok = ctx.and_(ok, *[got[1][i] == prog[i] for i in range(plen)])
    else:
        ok = False
    ctx.check(ok, 'decode(encode) returns version and program')
    # history: the canonical string has just been decoded in this process; a mixed-case rendering must still be refused
    if any(c.isalpha() for c in hrp):
        k = [i for i, c in enumerate(hrp) if c.isalpha()][0]
        mixed = ctx.str_concat(hrp[:k] + hrp[k].upper() + hrp[k + 1:] + '1', s[len(hrp) + 1:])
        if len(hrp) > 1 or True:
            has_lower = any(c.isalpha() for c in hrp[k + 1:]) or None
        r = SA.decode(hrp, mixed)
        allnonalpha = ctx.and_(*[ctx.not_(ctx.and_(ctx.ord1(s[i]) >= 97, ctx.ord1(s[i]) <= 122)) for i in range(len(hrp) + 1, len(s))])
        # mixed unless the rest of the string happens to contain no lower-case letter at all
        rest_has_lower = any(c.isalpha() for c in hrp[k + 1:])
        ctx.check(ctx.or_(r == (None, None), (not rest_has_lower) and allnonalpha), 'mixed-case rendering of a just-decoded address is refused')
    up = SA.decode(hrp, s.upper())
    ok2 = up[0] is not None and up[1] is not None and len(up[1]) == plen and ctx.and_(up[0] == ver, *[up[1][i] == prog[i] for i in range(plen)])
    ctx.check(ok2, 'all-upper-case rendering decodes to the same program')


def _cmp_decode(ctx, got, ref):
    if ref is None:
        return got == (None, None)
    if got[0] is None or got[1] is None:
        return False
    if len(got[1]) != len(ref[1]):
        return False
    return ctx.and_(got[0] == ref[0], *[a == b for a, b in zip(got[1], ref[1])])


def h_accept(ctx, hrp, n):
    SA = ctx.mod('bitcoin.segwit_addr')
    s = ctx.text('s', n, 0, 0x10ffff)
    got = SA.decode(hrp, s)
    ref = RB.decode_address(ctx, hrp, s)
    ctx.check(_cmp_decode(ctx, got, ref), 'accept: decode == BIP173 reference')


def h_accept_addr(ctx, hrp, ndata, upper=False, wild=None, wild_any=False):
    """address-length strings: concrete prefix; payload symbols symbolic (all 32^k values); checksum symbols =
    reference checksum XOR symbolic delta (so both valid and invalid checksums are reachable assignments and replay
    reproduces); optionally one arbitrary printable character at data position `wild`"""
    SA = ctx.mod('bitcoin.segwit_addr')
    pay = [ctx.int('p%d' % i, 0, 31) for i in range(ndata - 6)]
    cs = RB.create_checksum(ctx, hrp, pay)
    delta = [ctx.int('delta%d' % j, 0, 31) for j in range(6)]
    syms = pay + [c ^ d for c, d in zip(cs, delta)]
    table = RB.CHARSET.upper() if upper else RB.CHARSET
    chars = [ctx.str_from_table(table, [v]) for v in syms]
    if wild is not None:
        chars[wild] = ctx.text('wild', 1, 0, 0x10ffff) if wild_any else ctx.text('wild', 1, 33, 126)
    s = ctx.str_concat((hrp.upper() if upper else hrp) + '1', *chars)
    got = SA.decode(hrp, s)
    ref = RB.decode_address(ctx, hrp, s)
    ctx.check(_cmp_decode(ctx, got, ref), 'accept: decode == BIP173 reference')
    if wild is None:
        valid_cs = ctx.and_(*[d == 0 for d in delta])
        ctx.check(ctx.implies(ctx.not_(valid_cs), got == (None, None)), 'accept: wrong checksum is rejected')


def h_data_class(ctx, hrp, ver, plen):
    """CBech32Data wrapper with the selected chain's prefix"""
    chain = {'bc': 'mainnet', 'tb': 'testnet', 'bcrt': 'regtest'}[hrp]
    ctx.select_chain(chain)
    BE = ctx.mod('bitcoin.bech32')
    prog = ctx.bytes('prog', plen)
    obj = BE.CBech32Data.from_bytes(ver, prog)
    s = ctx.to_str(obj)
    ref = RB.encode_address(ctx, hrp, ver, [prog[i] for i in range(plen)])
    ctx.check(s == ctx.str_concat(hrp + '1', ctx.str_from_table(RB.CHARSET, ref)), 'CBech32Data str == BIP173 reference')
    back = BE.CBech32Data(s)
    ctx.check(ctx.and_(back.witver == ver, len(back) == plen, back.to_bytes() == prog), 'CBech32Data round trip')
    other = {'bc': 'testnet', 'tb': 'mainnet', 'bcrt': 'mainnet'}[hrp]
    ctx.select_chain(other)
    try:
        BE.CBech32Data(s)
        ctx.fail('CBech32Data refuses another chain\'s prefix')
    except BE.Bech32Error:
        pass
    ctx.select_chain('mainnet')


HARNESSES = {'step': h_step, 'detect_batch': h_detect_batch, 'detect_e2e': h_detect_e2e, 'codec': h_codec, 'accept': h_accept,
             'accept_addr': h_accept_addr, 'data_class': h_data_class}


def _chunks(lst, k):
    for i in range(0, len(lst), k):
        yield lst[i:i + k]


def instances(tier):
    out = [dict(h='step')]
    # error detection by position sets
    plan = [(39, 'bc', 1), (39, 'bc', 2), (59, 'bc', 1), (59, 'bc', 2), (39, 'tb', 2), (59, 'bcrt', 2)]
    if tier != 'quick':
        plan += [(39, 'bc', 3), (59, 'bc', 3)]
    for n, hrp, k in plan:
        sets = [list(c) for c in itertools.combinations(range(n), k)]
        for ch in _chunks(sets, 400):
            out.append(dict(h='detect_batch', p=dict(n=n, hrp=hrp, sets=ch), witness_every=0, keep_witnesses=0, max_seconds=3000))
    if tier != 'quick':
        sets = [list(c) for c in itertools.islice(itertools.combinations(range(39), 4), 0, None, 2)]
        for ch in _chunks(sets, 400):
            out.append(dict(h='detect_batch', p=dict(n=39, hrp='bc', sets=ch), witness_every=0, keep_witnesses=0, max_seconds=3000))
    for pos in ([0], [3, 9], [1, 2, 11], [0, 5, 6, 12]):
        out.append(dict(h='detect_e2e', p=dict(hrp='bc', plen=4, positions=pos), max_seconds=900))
    # codec
    for hrp in HRPS:
        for ver, plen in ((0, 20), (0, 32)):
            out.append(dict(h='codec', p=dict(hrp=hrp, ver=ver, plen=plen)))
    vers = list(range(1, 17))
    for plen in range(2, 41):
        out.append(dict(h='codec', p=dict(hrp=HRPS[plen % 3], ver=vers[plen % 16], plen=plen)))
    for plen in (2, 19, 21, 33, 40):
        out.append(dict(h='codec', p=dict(hrp='bc', ver=0, plen=plen)))
    for hrp in ('bc', 'tb', 'bcrt'):
        for n in range(8, 12 + 1):
            if n >= len(hrp) + 7:
                out.append(dict(h='accept', p=dict(hrp=hrp, n=n), max_seconds=1500))
    for hrp, nd in (('bc', 39), ('tb', 39), ('bc', 59), ('bcrt', 59), ('bc', 38), ('bc', 40), ('tb', 58), ('bc', 60), ('bc', 10), ('bc', 70), ('bc', 88)):
        out.append(dict(h='accept_addr', p=dict(hrp=hrp, ndata=nd), max_seconds=1500, inc_to=300))
    out.append(dict(h='accept_addr', p=dict(hrp='bc', ndata=39, upper=True), max_seconds=1500, inc_to=300))
    for w in (0, 1, 20, 33, 38):
        out.append(dict(h='accept_addr', p=dict(hrp='bc', ndata=39, wild=w), max_seconds=1500, inc_to=300))
    # one arbitrary code point (the whole Unicode range) inside an otherwise valid upper-case address (the lower-case variant did
    # not finish: str.upper has 17 non-ASCII code points with ASCII images; C12 mixedcase covers a lower-case rendering)
    for up, w in ((True, 20),) if tier == 'quick' else ((True, 1), (True, 20), (True, 36)):
        out.append(dict(h='accept_addr', p=dict(hrp='bc', ndata=39, upper=up, wild=w, wild_any=True), max_seconds=1500, inc_to=300))
    for hrp, ver, plen in (('bc', 0, 20), ('tb', 0, 32), ('bcrt', 0, 20), ('bc', 1, 32), ('tb', 16, 2)):
        out.append(dict(h='data_class', p=dict(hrp=hrp, ver=ver, plen=plen)))
    return out
