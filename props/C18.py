"""C18 - P2P messages: framing, payload layout and stream parsing exact and invertible."""
from refs import ref_wire as W
from refs import ref_msgs as RM
from props import common as K

ID = 'C18'
FUNCTIONS = ['messages.MsgSerializable.to_bytes/from_bytes/stream_deserialize/stream_serialize', 'messages.msg_* (17 classes) msg_ser/msg_deser',
             'net.CAddress/CInv/CBlockLocator/CAlert (de)serialisation', 'messages.messagemap', 'bitcoin.params.MESSAGE_START per chain',
             'serialize.ser_read']
ASSUMPTIONS = ['SHA-256 uninterpreted: "wrong checksum" is judged against the reference rule checksum == H(payload)[:4] over the same function symbol',
               'socket.inet_ntop/inet_pton: uninterpreted inverse pair (IPv6 text contains ":", IPv4 text does not); IPv6 inputs are assumed not to start with the '
               'IPv4-mapped prefix (they would be rendered as IPv4)',
               'inv type and locator version are int32 on the wire (Bitcoin Core), header corruption of the *command* field is outside the claim '
               '(the protocol checksum does not cover it)']
STUBS = ['hashlib (UF)', 'struct', 'io.BytesIO', 'socket.inet_ntop/inet_pton', 'time.time', 'random.getrandbits']
OUTSIDE = ['vectors longer than 2 entries (0xfd entries for inv in thorough)', 'byte strings longer than 3 symbolic bytes except the 0xfd boundary',
           'msg_version with nVersion below 70001 (fields not carried by older versions)', 'payload corruptions are single positions per instance',
           'streams longer than 3 frames']
EXPECTED_LABELS = ['frame == reference framing', 'from_bytes: same type and fields', 're-framing identical', 'stream: messages in order, position exact',
                   'fault: outcome == reference frame rule', 'fault: never reads beyond the frame', 'truncation raises SerializationTruncationError']
CHAINS = ['mainnet', 'testnet', 'signet', 'regtest']


def bounds(tier):
    return dict(types='all 17 message types', chains=CHAINS, scalars='all symbolic over wire range', vectors='0..2 entries',
                strings='0..3 symbolic bytes (+ 0xfd bytes with symbolic ends)', faults='magic 4 symbolic bytes, length field all 2^32 values, '
                'checksum 4 symbolic bytes, payload of 0..3 symbolic bytes followed by 0..2 further stream bytes; every truncation point')


def _addr(ctx, pre, v4):
    if v4:
        ip4 = ctx.bytes(pre + '_ip4', 4)
        ip16 = ctx.B(RM.IPV4_COMPAT) + ip4
        text = ctx.ip_text(True, ip4)
    else:
        ip16 = ctx.bytes(pre + '_ip6', 16)
        ctx.assume(ctx.not_(ip16[:12] == ctx.B(RM.IPV4_COMPAT)))
        text = ctx.ip_text(False, ip16)
    return dict(time=ctx.int(pre + '_time', 0, 0xffffffff), services=ctx.int(pre + '_srv', 0, (1 << 64) - 1), ip16=ip16,
                port=ctx.int(pre + '_port', 0, 0xffff), text=text)


def _mk_caddr(ctx, a):
    N = ctx.mod('bitcoin.net')
    c = N.CAddress()
    c.nTime = a['time']
    c.nServices = a['services']
    c.ip = a['text']
    c.port = a['port']
    return c


def _caddr_eq(ctx, c, a, with_time=True):
    conds = [c.nServices == a['services'], c.port == a['port'], c.ip == a['text']]
    if with_time:
        conds.append(c.nTime == a['time'])
    return ctx.and_(*conds)


def build(ctx, typ, var):
    """-> (msg, payload_ref, eq(msg2) -> bool)"""
    Msg = ctx.mod('bitcoin.messages')
    N = ctx.mod('bitcoin.net')
    C = ctx.core
    if typ in ('verack', 'getaddr', 'mempool'):
        m = getattr(Msg, 'msg_' + typ)()
        return m, ctx.B(b''), lambda x: True
    if typ in ('ping', 'pong'):
        nonce = ctx.int('nonce', 0, (1 << 64) - 1)
        m = getattr(Msg, 'msg_' + typ)(nonce=nonce)
        return m, W.le(ctx, nonce, 8), lambda x: x.nonce == nonce
    if typ == 'version':
        f = dict(nVersion=ctx.int('ver', 70001, (1 << 31) - 1), nServices=ctx.int('srv', 0, (1 << 64) - 1),
                 nTime=ctx.int('time', -(1 << 63), (1 << 63) - 1), addrTo=_addr(ctx, 'to', var % 2 == 0), addrFrom=_addr(ctx, 'from', var % 2 == 1),
                 nNonce=ctx.int('nonce', 0, (1 << 64) - 1), strSubVer=K.mk_bytes(ctx, 'subver', [0, 3, 0xfd][var % 3]),
                 nStartingHeight=ctx.int('height', -(1 << 31), (1 << 31) - 1), fRelay=ctx.int('relay', 0, 1))
        m = Msg.msg_version()
        m.nVersion, m.nServices, m.nTime = f['nVersion'], f['nServices'], f['nTime']
        m.addrTo, m.addrFrom = _mk_caddr(ctx, f['addrTo']), _mk_caddr(ctx, f['addrFrom'])
        m.nNonce, m.strSubVer, m.nStartingHeight, m.fRelay = f['nNonce'], f['strSubVer'], f['nStartingHeight'], f['fRelay']

        def eq(x):
            return ctx.and_(x.nVersion == f['nVersion'], x.nServices == f['nServices'], x.nTime == f['nTime'],
                            _caddr_eq(ctx, x.addrTo, f['addrTo'], False), _caddr_eq(ctx, x.addrFrom, f['addrFrom'], False),
                            x.nNonce == f['nNonce'], x.strSubVer == f['strSubVer'], x.nStartingHeight == f['nStartingHeight'],
                            x.fRelay == f['fRelay'])
        return m, RM.version_payload(ctx, f), eq
    if typ == 'addr':
        addrs = [_addr(ctx, 'a%d' % i, (i + var) % 2 == 0) for i in range(var % 3)]
        m = Msg.msg_addr()
        m.addrs = [_mk_caddr(ctx, a) for a in addrs]
        ref = W.compact_size(ctx, len(addrs))
        for a in addrs:
            ref = ref + RM.netaddr(ctx, a, True)
        return m, ref, lambda x: len(x.addrs) == len(addrs) and ctx.and_(*[_caddr_eq(ctx, c, a) for c, a in zip(x.addrs, addrs)])
    if typ == 'alert':
        msgb = K.mk_bytes(ctx, 'amsg', [0, 3, 0xfd][var % 3])
        sig = K.mk_bytes(ctx, 'asig', [2, 0, 1][var % 3])
        m = Msg.msg_alert()
        m.alert.vchMsg, m.alert.vchSig = msgb, sig
        return m, RM.varstr(ctx, msgb) + RM.varstr(ctx, sig), lambda x: ctx.and_(x.alert.vchMsg == msgb, x.alert.vchSig == sig)
    if typ in ('inv', 'getdata', 'notfound'):
        n = [0, 1, 2][var % 3] if var < 3 else 0xfd
        if n <= 2:
            items = [(ctx.int('t%d' % i, -(1 << 31), (1 << 31) - 1), ctx.bytes('h%d' % i, 32)) for i in range(n)]
        else:
            first = (ctx.int('t0', -(1 << 31), (1 << 31) - 1), ctx.bytes('h0', 32))
            items = [first] + [(1, ctx.B(bytes([i % 251]) * 32)) for i in range(1, n)]
        m = getattr(Msg, 'msg_' + typ)()
        for t, h in items:
            iv = N.CInv()
            iv.type, iv.hash = t, h
            m.inv.append(iv)
        return m, RM.inv_vector(ctx, items), lambda x: len(x.inv) == len(items) and ctx.and_(
            *[ctx.and_(a.type == t, a.hash == h) for a, (t, h) in zip(x.inv, items)])
    if typ in ('getblocks', 'getheaders'):
        hs = [ctx.bytes('l%d' % i, 32) for i in range(var % 3)]
        stop = ctx.bytes('stop', 32)
        ver = ctx.int('lver', -(1 << 31), (1 << 31) - 1)
        m = getattr(Msg, 'msg_' + typ)()
        m.locator.nVersion, m.locator.vHave, m.hashstop = ver, list(hs), stop
        return m, RM.locator(ctx, ver, hs, stop), lambda x: len(x.locator.vHave) == len(hs) and ctx.and_(
            x.locator.nVersion == ver, x.hashstop == stop, *[a == b for a, b in zip(x.locator.vHave, hs)])
    if typ == 'headers':
        hfs = [K.mk_header_fields(ctx, 'hd%d' % i) for i in range(var % 3)]
        m = Msg.msg_headers()
        m.headers = [C.CBlockHeader(h['nVersion'], h['hashPrevBlock'], h['hashMerkleRoot'], h['nTime'], h['nBits'], h['nNonce']) for h in hfs]
        return m, RM.headers_payload(ctx, hfs), lambda x: len(x.headers) == len(hfs) and ctx.and_(
            *[K.header_fields_equal(ctx, a, h) for a, h in zip(x.headers, hfs)])
    if typ == 'tx':
        shapes = [dict(sig=[1], spk=[1], wit=None), dict(sig=[0, 2], spk=[], wit=None), dict(sig=[1], spk=[0, 3], wit=[[1, 0]])]
        f = K.mk_tx_fields(ctx, shapes[var % 3])
        m = Msg.msg_tx()
        m.tx = K.build_tx(ctx, f)
        return m, W.tx(ctx, f), lambda x: K.tx_fields_equal(ctx, x.tx, f)
    if typ == 'block':
        shapes = [[], [dict(sig=[1], spk=[1], wit=None)], [dict(sig=[0], spk=[0], wit=[[1]]), dict(sig=[1], spk=[], wit=None)]]
        hf = K.mk_header_fields(ctx)
        tfs = [K.mk_tx_fields(ctx, sh, pre='t%d' % k) for k, sh in enumerate(shapes[var % 3])]
        txs = [K.build_tx(ctx, f) for f in tfs]
        if txs:
            hf['hashMerkleRoot'] = C.CBlock.build_merkle_tree_from_txs(txs)[-1]
        m = Msg.msg_block()
        m.block = C.CBlock(hf['nVersion'], hf['hashPrevBlock'], hf['hashMerkleRoot'], hf['nTime'], hf['nBits'], hf['nNonce'], txs)
        return m, W.block(ctx, hf, tfs), lambda x: len(x.block.vtx) == len(tfs) and ctx.and_(
            K.header_fields_equal(ctx, x.block, hf), *[K.tx_fields_equal(ctx, a, f) for a, f in zip(x.block.vtx, tfs)])
    if typ == 'reject':
        msgb = K.mk_bytes(ctx, 'rmsg', [0, 2, 0xfd][var % 3])
        code = ctx.bytes('ccode', 1)
        reason = K.mk_bytes(ctx, 'reason', [3, 0, 1][var % 3])
        m = Msg.msg_reject()
        m.message, m.ccode, m.reason = msgb, code, reason
        return m, RM.varstr(ctx, msgb) + code + RM.varstr(ctx, reason), lambda x: ctx.and_(
            x.message == msgb, x.ccode == code, x.reason == reason)
    raise AssertionError(typ)


def h_roundtrip(ctx, chain, typ, var):
    ctx.select_chain(chain)
    Msg = ctx.mod('bitcoin.messages')
    S = ctx.serialize
    m, payload, eq = build(ctx, typ, var)
    ref = RM.frame(ctx, chain, typ, payload)
    raw = m.to_bytes()
    if not ctx.check(len(raw) == len(ref), 'frame length == reference'):
        return
    ctx.check(raw == ref, 'frame == reference framing')
    back = Msg.MsgSerializable.from_bytes(raw)
    ctx.check(back is not None and back.__class__ is m.__class__ and back.command == m.command, 'from_bytes: same type')
    if back is None or back.__class__ is not m.__class__:
        return
    ctx.check(eq(back), 'from_bytes: same type and fields')
    ctx.check(back.to_bytes() == raw, 're-framing identical')
    # every truncation point of the frame
    for p in K.cut_positions(len(raw), 40):
        try:
            Msg.MsgSerializable.from_bytes(raw[:p])
            ctx.fail('truncation raises SerializationTruncationError', 'prefix %d of %d returned' % (p, len(raw)))
        except S.SerializationTruncationError:
            ctx.check(True, 'truncation raises SerializationTruncationError')
    # another chain's magic must be refused
    other = {'mainnet': 'testnet', 'testnet': 'regtest', 'signet': 'mainnet', 'regtest': 'signet'}[chain]
    ctx.select_chain(other)
    try:
        Msg.MsgSerializable.from_bytes(raw)
        ctx.fail('frame with another chain\'s magic is rejected')
    except ValueError:
        pass
    # history: the same message (and a fresh one of the same type) framed after the chain switch carries the new chain's magic
    ctx.check(m.to_bytes() == RM.frame(ctx, other, typ, payload), 'frame == reference framing', detail='same object after SelectParams(%s)' % other)
    ctx.check(back.to_bytes() == RM.frame(ctx, other, typ, payload), 'frame == reference framing', detail='parsed object after SelectParams(%s)' % other)
    ctx.select_chain(chain)
    ctx.check(m.to_bytes() == ref, 'frame == reference framing', detail='after switching back')
    ctx.select_chain('mainnet')


def h_stream(ctx, chain, types):
    ctx.select_chain(chain)
    Msg = ctx.mod('bitcoin.messages')
    IO = ctx.mod('bitcoin.messages').BytesIO
    frames = []
    eqs = []
    for k, t in enumerate(types):
        # distinct variable names per frame
        sub = _Prefixed(ctx, 'f%d_' % k)
        m, payload, eq = build(sub, t, k)
        frames.append(RM.frame(ctx, chain, t, payload))
        eqs.append((m.__class__, eq))
    tail = ctx.bytes('tail', 2)
    buf = ctx.B(b'')
    for fr in frames:
        buf = buf + fr
    f = IO(buf + tail)
    pos = 0
    ok = True
    for fr, (cls, eq) in zip(frames, eqs):
        x = Msg.MsgSerializable.stream_deserialize(f)
        pos += len(fr)
        ok = ctx.and_(ok, x is not None and x.__class__ is cls and eq(x), f.tell() == pos)
    ctx.check(ok, 'stream: messages in order, position exact')


class _Prefixed(object):
    """context view that prefixes the names of created inputs (several messages in one harness)"""

    def __init__(self, ctx, pre):
        self._c = ctx
        self._p = pre

    def __getattr__(self, n):
        return getattr(self._c, n)

    def int(self, name, lo, hi, mode='bv'):
        return self._c.int(self._p + name, lo, hi, mode)

    def bytes(self, name, n, mode='bv'):
        return self._c.bytes(self._p + name, n, mode)


def h_fault(ctx, chain, command, plen, extra):
    """arbitrary header fields around a fixed command, payload of plen symbolic bytes, `extra` further stream bytes"""
    ctx.select_chain(chain)
    Msg = ctx.mod('bitcoin.messages')
    S = ctx.serialize
    IO = Msg.BytesIO
    magic = ctx.bytes('magic', 4)
    length = ctx.int('length', 0, 0xffffffff)
    cksum = ctx.bytes('cksum', 4)
    payload = ctx.bytes('payload', plen)
    more = ctx.bytes('more', extra)
    cmd = command.encode('ascii')
    stream = magic + ctx.B(cmd + bytes(12 - len(cmd))) + W.le(ctx, length, 4) + cksum + payload + more
    f = IO(stream)
    want = RM.parse_frame(ctx, chain, stream)
    try:
        x = Msg.MsgSerializable.stream_deserialize(f)
        got = 'msg' if x is not None else 'none'
    except S.SerializationTruncationError:
        got = 'trunc'
    except S.SerializationError:
        got = 'sererr'
    except ValueError:
        got = 'valueerror'
    pos = f.tell()
    if want[0] == 'ok':
        # frame is well formed: the payload parser decides (message, or its own deserialisation error)
        known = command in RM.COMMANDS
        ctx.check((got in ('msg', 'trunc', 'sererr', 'valueerror')) if known else (got == 'none'), 'fault: outcome == reference frame rule',
                  detail='well-formed frame, command %s, library %s' % (command, got))
        ctx.check(pos == want[3], 'fault: consumes exactly the frame')
        if got == 'msg':
            ctx.check(x.command == cmd, 'fault: message type follows the command field')
    else:
        expect = {'trunc': ('trunc',), 'badmagic': ('valueerror',), 'toolong': ('sererr', 'trunc', 'valueerror'),
                  'badsum': ('valueerror',)}[want[0]]
        ctx.check(got in expect, 'fault: outcome == reference frame rule', detail='reference %s, library %s' % (want[0], got))
        ctx.check(got not in ('msg', 'none'), 'fault: a malformed frame is never returned as a message')
    avail = len(stream) - 24
    ctx.check(ctx.or_(pos <= 24, ctx.and_(pos <= 24 + avail, ctx.or_(pos <= 24 + length, length > avail))), 'fault: never reads beyond the frame')


HARNESSES = {'roundtrip': h_roundtrip, 'stream': h_stream, 'fault': h_fault}


def instances(tier):
    out = []
    k = 0
    for typ in RM.COMMANDS:
        nvar = 1 if typ in ('verack', 'getaddr', 'mempool', 'ping', 'pong') else 3
        for var in range(nvar):
            out.append(dict(h='roundtrip', p=dict(chain=CHAINS[k % 4], typ=typ, var=var)))
            k += 1
    if tier != 'quick':
        for typ in ('inv', 'getdata'):
            out.append(dict(h='roundtrip', p=dict(chain='mainnet', typ=typ, var=3)))
        for typ in RM.COMMANDS:
            for ch in CHAINS:
                out.append(dict(h='roundtrip', p=dict(chain=ch, typ=typ, var=1)))
    streams = [['ping'], ['verack', 'ping'], ['ping', 'pong', 'verack'], ['inv', 'tx'], ['headers', 'getheaders', 'addr'],
               ['version', 'verack'], ['reject', 'alert', 'mempool'], ['block', 'getaddr']]
    for i, ts in enumerate(streams):
        out.append(dict(h='stream', p=dict(chain=CHAINS[i % 4], types=ts)))
    for i, (cmd, plen, extra) in enumerate([('verack', 0, 0), ('verack', 0, 2), ('ping', 8, 0), ('ping', 8, 1), ('ping', 3, 2), ('pong', 8, 2),
                                             ('mempool', 1, 1), ('alert', 2, 0), ('getaddr', 0, 1), ('reject', 3, 1), ('xyz', 2, 1)]):
        out.append(dict(h='fault', p=dict(chain=CHAINS[i % 4], command=cmd, plen=plen, extra=extra), max_seconds=900))
    return out
