"""C01 - transaction/block wire format: exact bytes, lossless round trip, clean errors."""
import itertools
from refs import ref_wire as W
from props import common as K

ID = 'C01'
FUNCTIONS = ['serialize.ser_read', 'serialize.Serializable.serialize/deserialize', 'serialize.VarIntSerializer',
             'serialize.BytesSerializer', 'serialize.VectorSerializer', 'core.COutPoint/CTxIn/CTxOut/CTxInWitness/CTxWitness'
             '.stream_(de)serialize', 'core.CTransaction.stream_(de)serialize', 'script.CScriptWitness.stream_(de)serialize',
             'core.CBlockHeader/CBlock.stream_(de)serialize', 'core.CBlock.__init__ (merkle tree with hash UF)']
ASSUMPTIONS = ['struct / BytesIO stubs are exact models', 'SHA-256 as uninterpreted function (only used for the merkle root of blocks)']
STUBS = ['struct', 'io.BytesIO', 'hashlib (UF)']
OUTSIDE = ['vector counts > 3 except the 0xfc/0xfd output-count boundary', 'scripts longer than 65 540 bytes',
           'interior bytes of strings longer than 6 bytes are concrete filler (first 2 / last 2 symbolic)',
           'truncation points of encodings longer than 192 bytes are a dense subset (both ends + CompactSize boundaries + sweep)',
           'arbitrary (non-prefix, non-extension) byte strings as deserialisation input', 'non-seekable streams']
EXPECTED_LABELS = ['tx: serialize == reference encoding', 'tx: deserialize(serialize) has equal fields',
                   'tx: prefix raises SerializationTruncationError', 'tx: extra data error carries object and padding',
                   'varint: encoding == reference', 'block: serialize == reference encoding', 'header: serialize == reference encoding']


def bounds(tier):
    return dict(n_in='1..2 quick / 1..3 thorough', n_out='0..2 quick / 0..3 thorough (+252/253 outputs)',
                script_lengths=LENS_Q if tier == 'quick' else LENS_T, witness='absent / all-empty / per-input stacks of 0..2 items',
                fields='nVersion int32, nLockTime/n/nSequence uint32, nValue int64, hashes 32 bytes: all symbolic over full range',
                varint='all i in 0..2^64-1 symbolic', extensions='1, 2, 9 symbolic bytes', blocks='0..2 (quick) / 0..3 (thorough) transactions')


LENS_Q = [0, 1, 3, 0xfc, 0xfd, 0x100]
LENS_T = [0, 1, 2, 3, 0x4b, 0xfc, 0xfd, 0xfe, 0xff, 0x100, 0xffff, 0x10000]


def _roundtrip(ctx, cls, obj, ref, fields_eq, what, exts=(1, 2, 9), dense=96):
    S = ctx.serialize
    ser = obj.serialize()
    if not ctx.check(len(ser) == len(ref), what + ': serialized length == reference length'):
        return
    ctx.check(ser == ref, what + ': serialize == reference encoding')
    back = cls.deserialize(ser)
    ctx.check(fields_eq(back), what + ': deserialize(serialize) has equal fields')
    ctx.check(back.serialize() == ser, what + ': re-serialisation identical')
    # every strict prefix -> exactly the truncation error
    for p in K.cut_positions(len(ser), dense):
        try:
            cls.deserialize(ser[:p])
            ctx.fail(what + ': prefix raises SerializationTruncationError', 'prefix %d of %d accepted' % (p, len(ser)))
        except S.SerializationTruncationError:
            ctx.check(True, what + ': prefix raises SerializationTruncationError')
    # extension -> extra-data error carrying object and surplus, unless padding allowed
    for k in exts:
        pad = ctx.bytes('pad%d' % k, k)
        try:
            cls.deserialize(ser + pad)
            ctx.fail(what + ': extra data error carries object and padding', 'extension by %d accepted' % k)
        except S.DeserializationExtraDataError as e:
            ctx.check(ctx.and_(fields_eq(e.obj), e.padding == pad, e.obj.serialize() == ser),
                      what + ': extra data error carries object and padding')
        ok = cls.deserialize(ser + pad, allow_padding=True)
        ctx.check(ok.serialize() == ser, what + ': allow_padding returns the object')


def h_tx(ctx, sig, spk, wit, mutable=False):
    f = K.mk_tx_fields(ctx, dict(sig=sig, spk=spk, wit=wit))
    tx = K.build_tx(ctx, f, mutable)
    ref = W.tx(ctx, f)
    cls = ctx.core.CMutableTransaction if mutable else ctx.core.CTransaction
    # marker/flag iff some stack non-empty
    ser = tx.serialize()
    ext = W.has_witness(f)
    ctx.check((ser[4:6] == ctx.B(b'\x00\x01')) if ext else ctx.not_(ser[4:6] == ctx.B(b'\x00\x01')),
              'tx: BIP144 marker/flag iff some witness stack non-empty')
    # call-order independence: a stripped serialisation (as GetTxid / weight computations request it) first, then the full one
    tx2 = K.build_tx(ctx, f, mutable)
    ctx.check(tx2.serialize(dict(include_witness=False)) == W.tx(ctx, f, with_witness=False), 'tx: stripped serialisation == reference')
    ctx.check(tx2.serialize() == ref, 'tx: serialize == reference encoding', detail='after a stripped serialisation of the same object')
    if len(f['vout']) > 0:
        tx3 = K.build_tx(ctx, f, mutable)
        tx3.calc_weight()
        tx3.GetTxid()
        ctx.check(tx3.serialize() == ref, 'tx: serialize == reference encoding', detail='after calc_weight / GetTxid')
    _roundtrip(ctx, cls, tx, ref, lambda t: K.tx_fields_equal(ctx, t, f), 'tx')


def h_varint(ctx):
    S = ctx.serialize
    i = ctx.int('i', 0, (1 << 64) - 1)
    enc = S.VarIntSerializer.serialize(i)
    ref = W.compact_size_sym(ctx, i)
    ctx.check(len(enc) == len(ref), 'varint: length == reference')
    ctx.check(enc == ref, 'varint: encoding == reference')
    ctx.check(S.VarIntSerializer.deserialize(enc) == i, 'varint: decode(encode(i)) == i')
    for p in range(len(enc)):
        try:
            S.VarIntSerializer.deserialize(enc[:p])
            ctx.fail('varint: prefix raises truncation')
        except S.SerializationTruncationError:
            ctx.check(True, 'varint: prefix raises truncation')


def h_bytes(ctx, n):
    S = ctx.serialize
    b = K.mk_bytes(ctx, 'b', n)
    enc = S.BytesSerializer.serialize(b)
    ctx.check(enc == W.varbytes(ctx, b), 'bytes: encoding == reference')
    ctx.check(S.BytesSerializer.deserialize(enc) == b, 'bytes: round trip')


def h_header(ctx):
    f = K.mk_header_fields(ctx)
    C = ctx.core
    h = C.CBlockHeader(f['nVersion'], f['hashPrevBlock'], f['hashMerkleRoot'], f['nTime'], f['nBits'], f['nNonce'])
    _roundtrip(ctx, C.CBlockHeader, h, W.header(ctx, f), lambda x: K.header_fields_equal(ctx, x, f), 'header')


def h_block(ctx, txshapes):
    C = ctx.core
    hf = K.mk_header_fields(ctx)
    tfs = [K.mk_tx_fields(ctx, sh, pre='t%d' % k) for k, sh in enumerate(txshapes)]
    txs = [K.build_tx(ctx, f) for f in tfs]
    if txs:
        # the constructor insists on a consistent merkle root: take the library's own (C15 checks its value)
        hf['hashMerkleRoot'] = C.CBlock.build_merkle_tree_from_txs(txs)[-1]
    blk = C.CBlock(hf['nVersion'], hf['hashPrevBlock'], hf['hashMerkleRoot'], hf['nTime'], hf['nBits'], hf['nNonce'], txs)

    def eq(b):
        if len(b.vtx) != len(tfs):
            return False
        return ctx.and_(K.header_fields_equal(ctx, b, hf), *[K.tx_fields_equal(ctx, t, f) for t, f in zip(b.vtx, tfs)])
    if txs:
        blk2 = C.CBlock(hf['nVersion'], hf['hashPrevBlock'], hf['hashMerkleRoot'], hf['nTime'], hf['nBits'], hf['nNonce'], [K.build_tx(ctx, f) for f in tfs])
        blk2.GetWeight()
        ctx.check(blk2.serialize() == W.block(ctx, hf, tfs), 'block: serialize == reference encoding', detail='after GetWeight')
    _roundtrip(ctx, C.CBlock, blk, W.block(ctx, hf, tfs), eq, 'block', exts=(1, 9), dense=48)


HARNESSES = {'tx': h_tx, 'varint': h_varint, 'bytes': h_bytes, 'header': h_header, 'block': h_block}


def _wit_patterns(nin, tier):
    pats = [None, [[] for _ in range(nin)]]
    pats.append([[1]] + [[] for _ in range(nin - 1)])
    pats.append([[] for _ in range(nin - 1)] + [[0, 3]])
    pats.append([[0]] + [[] for _ in range(nin - 1)])        # a non-empty stack made of empty items only
    if tier != 'quick':
        pats.append([[2, 0xfd] for _ in range(nin)])
        pats.append([[0, 0]] * nin)
    return pats


def instances(tier):
    out = [dict(h='varint'), dict(h='header')]
    lens = LENS_Q if tier == 'quick' else LENS_T
    for n in lens + ([0xffff, 0x10000] if tier == 'quick' else [0x10003]):
        out.append(dict(h='bytes', p=dict(n=n)))
    max_in, max_out = (2, 2) if tier == 'quick' else (3, 3)
    small = [0, 1, 3]
    for nin in range(1, max_in + 1):
        for nout in range(0, max_out + 1):
            for wit in _wit_patterns(nin, tier):
                for mutable in (False, True):
                    out.append(dict(h='tx', p=dict(sig=[small[(i + nout) % 3] for i in range(nin)],
                                                   spk=[small[(j + nin) % 3] for j in range(nout)], wit=wit, mutable=mutable)))
    # CompactSize boundaries inside a transaction: one long field at a time
    for ln in [l for l in lens if l > 3]:
        out.append(dict(h='tx', p=dict(sig=[ln], spk=[1], wit=None)))
        out.append(dict(h='tx', p=dict(sig=[1], spk=[ln], wit=[[1]])))
        out.append(dict(h='tx', p=dict(sig=[0], spk=[0], wit=[[ln, 1]])))
    # output-count boundary 0xfc / 0xfd
    for cnt in ([0xfd] if tier == 'quick' else [0xfc, 0xfd]):
        out.append(dict(h='tx', p=dict(sig=[0], spk=[0] * cnt, wit=None), max_seconds=900))
    # blocks
    t_a = dict(sig=[1], spk=[1], wit=None)
    t_w = dict(sig=[0], spk=[0], wit=[[1]])
    t_2 = dict(sig=[0, 2], spk=[], wit=None)
    out.append(dict(h='block', p=dict(txshapes=[])))
    out.append(dict(h='block', p=dict(txshapes=[t_a])))
    out.append(dict(h='block', p=dict(txshapes=[t_a, t_w])))
    out.append(dict(h='block', p=dict(txshapes=[t_w])))            # only the first transaction carries a witness
    out.append(dict(h='block', p=dict(txshapes=[t_w, t_a])))
    if tier != 'quick':
        out.append(dict(h='block', p=dict(txshapes=[t_w, t_2, t_a])))
        out.append(dict(h='block', p=dict(txshapes=[t_a, t_w, t_a])))
        out.append(dict(h='block', p=dict(txshapes=[t_2, t_2])))
    return out
