"""C14 - signed messages (reduced scope: digest layout, header byte, base64 framing, address-comparison glue).

The relation "recovery of a genuine signature returns the signer's key" lives in OpenSSL behind ctypes and is an
ASSUMPTION of the symbolic run (stub contract); the concrete twin of the harness, used for witness validation and
replay, exercises the real OpenSSL path end to end."""
from refs import ref_wire as W
from props import C12 as P12

ID = 'C14'
FUNCTIONS = ['signmessage.BitcoinMessage.__init__/stream_serialize/GetHash', 'signmessage.SignMessage', 'signmessage.VerifyMessage',
             'key.CPubKey.recover_compact (glue around the stubbed CECKey.recover)', 'wallet.P2PKHBitcoinAddress.from_pubkey', 'wallet.CKey']
ASSUMPTIONS = ['CECKey.sign_compact returns an arbitrary 64-byte (r,s) and recovery id 0..3; CECKey.recover returns success and an arbitrary public key '
               '(33 bytes when the compressed flag is set, else 65) - the ECDSA relation between them is NOT decided (behind FFI)',
               'base58 text opaque as in C12; hashes uninterpreted']
STUBS = ['bitcoin.core.key.CECKey (oracle)', 'hashlib (UF)', 'base64 (exact model)', 'struct']
OUTSIDE = ['that recovery of a genuine signature yields the signer\'s key (OpenSSL)', 'signatures not produced by SignMessage (documented precondition)',
           'messages longer than 300 bytes / more than 4 symbolic code points']
EXPECTED_LABELS = ['digest == H(H(varstr(magic) || varstr(utf8(message))))', 'signature is base64 of header byte + 64 bytes',
                   'verify true iff recovered key hashes to the address']
MAGIC = 'Bitcoin Signed Message:\n'


def bounds(tier):
    return dict(message='symbolic text of 0..%d code points over all of Unicode (UTF-8 length forks); lengths 252/253/300 with symbolic ends' % (3 if tier == 'quick' else 4),
                header='recovery id symbolic 0..3, both compression settings', verify='symbolic recovered key, address payload and version')


def _utf8_ref(ctx, cps):
    out = []
    for c in cps:
        if ctx.is_true(c < 0x80):
            out.append(c)
        elif ctx.is_true(c < 0x800):
            out += [0xC0 + (c >> 6), 0x80 + (c & 0x3F)]
        elif ctx.is_true(c < 0x10000):
            out += [0xE0 + (c >> 12), 0x80 + ((c >> 6) & 0x3F), 0x80 + (c & 0x3F)]
        else:
            out += [0xF0 + (c >> 18), 0x80 + ((c >> 12) & 0x3F), 0x80 + ((c >> 6) & 0x3F), 0x80 + (c & 0x3F)]
    return ctx.bytes_of(out)


def h_digest(ctx, n, long=0):
    SM = ctx.mod('bitcoin.signmessage')
    if long:
        head = ctx.text('mh', 1, 32, 126)
        tail = ctx.text('mt', 1, 32, 126)
        msg = ctx.str_concat(head, 'x' * (long - 2), tail)
        mb = ctx.bytes_of([ctx.ord1(head)] + [ord('x')] * (long - 2) + [ctx.ord1(tail)])
    else:
        msg = ctx.text('m', n, 0, 0x10ffff)
        cps = [ctx.ord1(msg[i]) for i in range(n)]
        for c in cps:
            ctx.assume(ctx.or_(c < 0xD800, c > 0xDFFF))      # surrogates are not encodable text
        mb = _utf8_ref(ctx, cps)
    m = SM.BitcoinMessage(msg)
    pre = W.varbytes(ctx, ctx.B(MAGIC.encode())) + W.varbytes(ctx, mb)
    ctx.check(m.serialize() == pre, 'serialisation == varstr(magic) || varstr(utf8(message))')
    ctx.check(m.GetHash() == ctx.dsha256(pre), 'digest == H(H(varstr(magic) || varstr(utf8(message))))')


TRICKY = ['cafe\u0301', '\u2126', '\u1100\u1161\u11a8', 'A\u030a', '\ufb01', '\u00e9', 'x' * 70000, '\U0001f600\u200d']


def h_digest_fixed(ctx, k):
    """fixed texts that are not in a Unicode normal form (the symbolic family cannot steer a normaliser's tables): bytes signed are the plain UTF-8"""
    SM = ctx.mod('bitcoin.signmessage')
    msg = TRICKY[k]
    m = SM.BitcoinMessage(msg)
    pre = W.varbytes(ctx, ctx.B(MAGIC.encode())) + W.varbytes(ctx, ctx.B(msg.encode('utf-8')))
    ctx.check(m.serialize() == pre, 'serialisation == varstr(magic) || varstr(utf8(message))')
    ctx.check(m.GetHash() == ctx.dsha256(pre), 'digest == H(H(varstr(magic) || varstr(utf8(message))))')


class _Key(object):
    """stand-in for wallet.CKey in the symbolic run (SignMessage only uses sign_compact and is_compressed)"""

    def __init__(self, rs, recid, compressed):
        self.rs, self.recid, self.is_compressed = rs, recid, compressed

    def sign_compact(self, h):
        self.seen = h
        return self.rs, self.recid


def h_sign(ctx, compressed, mlen):
    SM = ctx.mod('bitcoin.signmessage')
    W_ = ctx.mod('bitcoin.wallet')
    msg = ctx.text('m', mlen, 32, 126)
    m = SM.BitcoinMessage(msg)
    if ctx.symbolic:
        rs = ctx.bytes('rs', 64)
        recid = ctx.int('recid', 0, 3)
        key = _Key(rs, recid, compressed)
        sig = SM.SignMessage(key, m)
        want = ctx.b64encode(ctx.bytes_of([27 + recid + (4 if compressed else 0)]) + rs)
        ctx.check(len(sig) == len(want) and sig == want, 'signature is base64 of header byte + 64 bytes')
        ctx.check(key.seen == m.GetHash(), 'the message digest is what gets signed')
        raw = ctx.b64decode(sig)
        ctx.check(len(raw) == 65, 'signature is base64 of header byte + 64 bytes')
    else:
        secret = ctx.sha256(ctx.bytes('rs', 64))        # the concrete twin needs some secret: derive it from a recorded input
        key = W_.CBitcoinSecret.from_secret_bytes(secret, compressed)
        sig = SM.SignMessage(key, m)
        import base64
        raw = base64.b64decode(sig)
        ctx.check(len(raw) == 65 and 27 <= raw[0] - (4 if compressed else 0) <= 30, 'signature is base64 of header byte + 64 bytes')
        addr = W_.P2PKHBitcoinAddress.from_pubkey(key.pub)
        ctx.check(SM.VerifyMessage(addr, m, sig), 'verify true for the signer address (real OpenSSL)')
        other = W_.P2PKHBitcoinAddress.from_bytes(bytes(20))
        ctx.check(not SM.VerifyMessage(other, m, sig), 'verify false for another address (real OpenSSL)')
        ctx.check(not SM.VerifyMessage(addr, SM.BitcoinMessage(msg + '!'), sig), 'verify false for another message (real OpenSSL)')


def h_verify(ctx, compressed, chain, akind='p2pkh'):
    """VerifyMessage glue: true iff the key returned by recovery hashes to the given address"""
    SM = ctx.mod('bitcoin.signmessage')
    W_ = ctx.mod('bitcoin.wallet')
    ctx.select_chain(chain)
    if not ctx.symbolic:
        # concrete twin: a genuine signature (real OpenSSL) verified against an address of the given kind carrying the signer's hash
        msg = ctx.text('m', 2, 32, 126)
        m = SM.BitcoinMessage(msg)
        key = W_.CBitcoinSecret.from_secret_bytes(ctx.sha256(ctx.bytes('pub', 33 if compressed else 65)), compressed)
        sig = SM.SignMessage(key, m)
        h160 = ctx.hash160(bytes(key.pub))
        addr = {'p2pkh': lambda: W_.P2PKHBitcoinAddress.from_bytes(h160), 'p2sh': lambda: W_.P2SHBitcoinAddress.from_bytes(h160),
                'p2wpkh': lambda: W_.P2WPKHBitcoinAddress.from_bytes(0, h160)}[akind]()
        got = SM.VerifyMessage(addr, m, sig)
        if akind == 'p2pkh':
            ctx.check(got, 'verify true iff recovered key hashes to the address')
        else:
            ctx.check(not got, 'verify false for an address of another kind carrying the same hash')
        ctx.select_chain('mainnet')
        return
    msg = ctx.text('m', 2, 32, 126)
    m = SM.BitcoinMessage(msg)
    rs = ctx.bytes('rs', 64)
    recid = ctx.int('recid', 0, 3)
    pub = ctx.bytes('pub', 33 if compressed else 65)
    hdr = 27 + recid + (4 if compressed else 0)
    sig = ctx.b64encode(ctx.bytes_of([hdr]) + rs)
    seen = {}

    def recover(key, sigR, sigS, mh, mlen, rid, check):
        seen.update(r=sigR, s=sigS, h=mh, recid=rid, compressed=key._compressed)
        key._pub = pub
        return 1
    ctx.set_state('recover', recover)
    ctx.set_state('derive_pub', lambda secret, comp: pub)
    payload = ctx.bytes('addr_payload', 20)
    with P12._Patched(ctx):
        if akind == 'p2pkh':
            addr = W_.P2PKHBitcoinAddress.from_bytes(payload)
        elif akind == 'p2sh':
            addr = W_.P2SHBitcoinAddress.from_bytes(payload)
        else:
            addr = W_.P2WPKHBitcoinAddress.from_bytes(0, payload)
        got = SM.VerifyMessage(addr, m, sig)
    ctx.check(ctx.and_(seen.get('r') == rs[:32], seen.get('s') == rs[32:], seen.get('h') == m.GetHash(), seen.get('recid') == recid,
                       seen.get('compressed') == compressed), 'recovery is called with r, s, the message digest, the recovery id and the compression flag')
    if akind == 'p2pkh':
        ctx.check(ctx.iff(got, ctx.hash160(pub) == payload), 'verify true iff recovered key hashes to the address')
    else:
        ctx.check(ctx.not_(got), 'verify false for an address of another kind carrying the same hash')
    ctx.select_chain('mainnet')


def h_verify_seq(ctx, order, chain):
    """history: several verifications in one process, compressed and uncompressed keys in the given order; each one is decided
    by ITS recovered key alone (the recovery is called with that signature's compression flag)"""
    SM = ctx.mod('bitcoin.signmessage')
    W_ = ctx.mod('bitcoin.wallet')
    ctx.select_chain(chain)
    for k, compressed in enumerate(order):
        pre = 'v%d_' % k
        what = 'verification %d (%s key) after %s' % (k + 1, 'compressed' if compressed else 'uncompressed',
                                                        [('compressed' if c else 'uncompressed') for c in order[:k]] or 'nothing')
        msg = ctx.text(pre + 'm', 2, 32, 126)
        m = SM.BitcoinMessage(msg)
        if not ctx.symbolic:
            key = W_.CBitcoinSecret.from_secret_bytes(ctx.sha256(ctx.bytes(pre + 'pub', 33 if compressed else 65)), compressed)
            sig = SM.SignMessage(key, m)
            addr = W_.P2PKHBitcoinAddress.from_pubkey(key.pub)
            ctx.check(SM.VerifyMessage(addr, m, sig), 'verify true iff recovered key hashes to the address', detail=what)
            continue
        rs = ctx.bytes(pre + 'rs', 64)
        recid = ctx.int(pre + 'recid', 0, 3)
        pub = ctx.bytes(pre + 'pub', 33 if compressed else 65)
        hdr = 27 + recid + (4 if compressed else 0)
        sig = ctx.b64encode(ctx.bytes_of([hdr]) + rs)
        seen = {}

        def recover(key, sigR, sigS, mh, mlen, rid, check, seen=seen, pub=pub):
            seen.update(r=sigR, s=sigS, h=mh, recid=rid, compressed=key._compressed)
            key._pub = pub
            return 1
        ctx.set_state('recover', recover)
        ctx.set_state('derive_pub', lambda secret, comp, pub=pub: pub)
        payload = ctx.bytes(pre + 'addr_payload', 20)
        with P12._Patched(ctx):
            addr = W_.P2PKHBitcoinAddress.from_bytes(payload)
            got = SM.VerifyMessage(addr, m, sig)
        ctx.check(ctx.and_(seen.get('r') == rs[:32], seen.get('s') == rs[32:], seen.get('h') == m.GetHash(), seen.get('recid') == recid,
                           seen.get('compressed') == compressed),
                  'recovery is called with r, s, the message digest, the recovery id and the compression flag', detail=what)
        ctx.check(ctx.iff(got, ctx.hash160(pub) == payload), 'verify true iff recovered key hashes to the address', detail=what)
    ctx.select_chain('mainnet')


HARNESSES = {'verify_seq': h_verify_seq, 'digest_fixed': h_digest_fixed, 'digest': h_digest, 'sign': h_sign, 'verify': h_verify}


def instances(tier):
    out = []
    for n in range(0, (3 if tier == 'quick' else 4) + 1):
        out.append(dict(h='digest', p=dict(n=n), max_seconds=1500))
    for k in range(len(TRICKY)):
        out.append(dict(h='digest_fixed', p=dict(k=k)))
    for ln in (252, 253, 300):
        out.append(dict(h='digest', p=dict(n=0, long=ln)))
    for comp in (True, False):
        for ml in (0, 3):
            out.append(dict(h='sign', p=dict(compressed=comp, mlen=ml)))
        for chain in ('mainnet', 'testnet', 'regtest'):
            out.append(dict(h='verify', p=dict(compressed=comp, chain=chain)))
        for ak in ('p2sh', 'p2wpkh'):
            out.append(dict(h='verify', p=dict(compressed=comp, chain='mainnet', akind=ak)))
    for order in ([True, False], [False, True], [True, True, False], [False, False, True]):
        out.append(dict(h='verify_seq', p=dict(order=order, chain='mainnet' if order[0] else 'testnet')))
    return out
