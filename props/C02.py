"""C02 - identifiers: txid ignores witness, wtxid covers it, block hash = header hash; mutable/immutable agree."""
from refs import ref_wire as W
from props import common as K

ID = 'C02'
FUNCTIONS = ['core.CTransaction.GetTxid', 'serialize.Serializable.GetHash', 'serialize.ImmutableSerializable.GetHash/__hash__',
             'core.CTransaction.has_witness', 'core.CTxWitness.is_null', 'core.CBlock.GetHash/get_header',
             'serialize.Serializable.__eq__/__hash__', 'core.*.from_tx/from_txin/from_txout/from_outpoint']
ASSUMPTIONS = ['SHA-256 is an uninterpreted function with congruence; "differs exactly when" is decided on the hash pre-images '
               'and carries over to digests under collision-freeness of double-SHA256 (stated assumption)']
STUBS = ['hashlib (UF)', 'struct', 'io.BytesIO']
OUTSIDE = ['actual SHA-256 collisions', 'shapes beyond the C01 bounds']
EXPECTED_LABELS = ['txid == H(H(stripped encoding))', 'txid independent of witness', 'wtxid == H(H(full encoding))',
                   'wtxid pre-image != txid pre-image iff some stack non-empty', 'block hash == H(H(80 header bytes))',
                   'mutable == immutable: serialisation', 'mutable == immutable: identifiers']


def bounds(tier):
    return dict(shapes='n_in 1..2, n_out 0..2 (quick) / ..3 (thorough); two independent witness assignments per tx '
                       '(none, all-empty, CTxWitness() without entries, non-empty items)', fields='all symbolic over wire range')


def _dsha(ctx, b):
    S = ctx.serialize
    return S.Hash(b)


def h_txid(ctx, sig, spk, wit1, wit2):
    C = ctx.core
    f = K.mk_tx_fields(ctx, dict(sig=sig, spk=spk, wit=None))
    f1 = dict(f)
    f2 = dict(f)
    def mkw(tag, w):
        if not isinstance(w, list):
            return None
        return [[K.mk_bytes(ctx, '%s_%d_%d' % (tag, i, k), ln) for k, ln in enumerate(st)] for i, st in enumerate(w)]
    f1['wit'] = mkw('w1', wit1)
    f2['wit'] = mkw('w2', wit2)
    stripped = W.tx(ctx, f, with_witness=False)
    want_txid = _dsha(ctx, stripped)
    ids = []
    for which, ff, wp in (('1', f1, wit1), ('2', f2, wit2)):
        for mutable in (False, True):
            if wp == 'default':
                g = dict(ff)
                g['wit'] = None
                tx = K.build_tx(ctx, g, mutable)
            elif wp == 'noentries':
                g = dict(ff)
                g['wit'] = None
                tx = K.build_tx(ctx, g, mutable)
                if mutable:
                    tx.wit = C.CTxWitness()
            else:
                tx = K.build_tx(ctx, ff, mutable)
            txid = tx.GetTxid()
            ctx.check(txid == want_txid, 'txid == H(H(stripped encoding))')
            pre = ctx.preimage(txid)
            full = W.tx(ctx, ff)
            wtxid = tx.GetHash()
            ctx.check(wtxid == _dsha(ctx, full), 'wtxid == H(H(full encoding))')
            hasw = W.has_witness(ff) if isinstance(wp, list) else False
            ctx.check(tx.has_witness() == hasw, 'has_witness iff some stack non-empty')
            # pre-image comparison (solver-decided over the witness bytes)
            same = (len(full) == len(stripped)) and full == stripped
            if hasw:
                ctx.check(ctx.not_(same), 'wtxid pre-image != txid pre-image iff some stack non-empty')
            else:
                ctx.check(same, 'wtxid pre-image != txid pre-image iff some stack non-empty')
                ctx.check(wtxid == txid, 'no witness: wtxid == txid')
            ids.append(txid)
    ctx.check(ctx.and_(*[i == ids[0] for i in ids[1:]]), 'txid independent of witness')


def h_twins(ctx, sig, spk, wit):
    """mutable and immutable objects with equal field values: same serialisation, identifiers, ==, ctx.hash()"""
    C = ctx.core
    f = K.mk_tx_fields(ctx, dict(sig=sig, spk=spk, wit=wit))
    a = K.build_tx(ctx, f, False)
    b = K.build_tx(ctx, f, True)
    c = C.CTransaction.from_tx(b)
    d = C.CMutableTransaction.from_tx(a)
    objs = [a, b, c, d]
    ser = a.serialize()
    ctx.check(ctx.and_(*[o.serialize() == ser for o in objs]), 'mutable == immutable: serialisation')
    ctx.check(ctx.and_(*[ctx.and_(o.GetTxid() == a.GetTxid(), o.GetHash() == a.GetHash()) for o in objs]),
              'mutable == immutable: identifiers')
    ctx.check(ctx.and_(a == b, b == a, c == d, ctx.not_(a != b)), 'mutable == immutable: ==')
    ctx.check(ctx.and_(*[ctx.hash(o) == ctx.hash(a) for o in objs]), 'mutable == immutable: ctx.hash()')
    # cached identifier of the immutable equals the recomputed one
    ctx.check(a.GetHash() == ctx.serialize.Hash(a.serialize()), 'cached GetHash == recomputed')
    ctx.check(a.GetHash() == a.GetHash(), 'GetHash stable')
    # parts
    for i in range(len(f['vin'])):
        m, im = b.vin[i], a.vin[i]
        ctx.check(ctx.and_(m.serialize() == im.serialize(), m.GetHash() == im.GetHash(), m == im, ctx.hash(m) == ctx.hash(im),
                           m.prevout == im.prevout, m.prevout.GetHash() == im.prevout.GetHash(),
                           ctx.hash(m.prevout) == ctx.hash(im.prevout)), 'mutable == immutable: inputs/outpoints')
    for j in range(len(f['vout'])):
        m, im = b.vout[j], a.vout[j]
        ctx.check(ctx.and_(m.serialize() == im.serialize(), m.GetHash() == im.GetHash(), m == im, ctx.hash(m) == ctx.hash(im)),
                  'mutable == immutable: outputs')


def h_edited(ctx, sig, spk, wit):
    """a mutable object whose identifiers were already computed, then edited: it must report the identifiers of an
    immutable object built from the new field values (no stale cache)"""
    C = ctx.core
    f = K.mk_tx_fields(ctx, dict(sig=sig, spk=spk, wit=wit))
    m = K.build_tx(ctx, f, True)
    old = (m.GetTxid(), m.GetHash(), ctx.hash(m), m.serialize())
    g = dict(f)
    g['nLockTime'] = ctx.int('new_lock', 0, 0xffffffff)
    g['nVersion'] = ctx.int('new_ver', -(1 << 31), (1 << 31) - 1)
    g['vin'] = [dict(i) for i in f['vin']]
    g['vin'][0]['nSequence'] = ctx.int('new_seq', 0, 0xffffffff)
    g['vin'][0]['n'] = ctx.int('new_n', 0, 0xffffffff)
    m.nLockTime = g['nLockTime']
    m.nVersion = g['nVersion']
    m.vin[0].nSequence = g['vin'][0]['nSequence']
    m.vin[0].prevout.n = g['vin'][0]['n']
    if len(f['vout']):
        g['vout'] = [dict(o) for o in f['vout']]
        g['vout'][0]['nValue'] = ctx.int('new_val', -(1 << 63), (1 << 63) - 1)
        m.vout[0].nValue = g['vout'][0]['nValue']
    im = K.build_tx(ctx, g, False)
    ctx.check(m.serialize() == W.tx(ctx, g), 'edited mutable: serialisation reflects current fields')
    ctx.check(ctx.and_(m.GetTxid() == im.GetTxid(), m.GetHash() == im.GetHash()), 'edited mutable: identifiers == immutable twin of the new values')
    ctx.check(m.GetTxid() == ctx.dsha256(W.tx(ctx, g, with_witness=False)), 'txid == H(H(stripped encoding))')
    ctx.check(ctx.and_(m == im, ctx.hash(m) == ctx.hash(im)), 'edited mutable: == and ctx.hash() follow the new values')
    ctx.check(m.vin[0].GetHash() == im.vin[0].GetHash(), 'edited mutable: input identifier follows the new values')


def h_block(ctx, txshapes):
    C = ctx.core
    hf = K.mk_header_fields(ctx)
    tfs = [K.mk_tx_fields(ctx, sh, pre='t%d' % k) for k, sh in enumerate(txshapes)]
    txs = [K.build_tx(ctx, f) for f in tfs]
    if txs:
        hf['hashMerkleRoot'] = C.CBlock.build_merkle_tree_from_txs(txs)[-1]
    blk = C.CBlock(hf['nVersion'], hf['hashPrevBlock'], hf['hashMerkleRoot'], hf['nTime'], hf['nBits'], hf['nNonce'], txs)
    hdr = C.CBlockHeader(hf['nVersion'], hf['hashPrevBlock'], hf['hashMerkleRoot'], hf['nTime'], hf['nBits'], hf['nNonce'])
    want = _dsha(ctx, W.header(ctx, hf))
    ctx.check(blk.GetHash() == want, 'block hash == H(H(80 header bytes))')
    ctx.check(hdr.GetHash() == want, 'header hash == H(H(80 header bytes))')
    ctx.check(blk.get_header().GetHash() == want, 'get_header().GetHash()')
    ctx.check(blk.get_header().serialize() == W.header(ctx, hf), 'get_header() == the 80 header bytes')
    back = C.CBlock.deserialize(blk.serialize())
    ctx.check(back.GetHash() == want, 'deserialised block hash == header hash')
    # blocks from the wire whose merkle-root field is all zero / arbitrary (not the root of the transactions carried):
    # the identifier is still the hash of the 80 bytes received
    for what, root in (('zero root field', ctx.B(bytes(32))), ('arbitrary root field', ctx.bytes('wire_root', 32))):
        hw = dict(hf)
        hw['hashMerkleRoot'] = root
        raw = W.block(ctx, hw, tfs)
        wb = C.CBlock.deserialize(raw)
        w80 = _dsha(ctx, W.header(ctx, hw))
        ctx.check(wb.GetHash() == w80, 'deserialised block hash == header hash', detail=what)
        ctx.check(wb.get_header().serialize() == W.header(ctx, hw), 'get_header() == the 80 header bytes', detail=what)
        ctx.check(wb.get_header().GetHash() == w80, 'get_header().GetHash()', detail=what)


HARNESSES = {'txid': h_txid, 'twins': h_twins, 'edited': h_edited, 'block': h_block}


def instances(tier):
    out = []
    mx = (2, 2) if tier == 'quick' else (3, 3)
    small = [0, 1, 3]
    for nin in range(1, mx[0] + 1):
        for nout in range(0, mx[1] + 1):
            sig = [small[(i + nout) % 3] for i in range(nin)]
            spk = [small[(j + nin) % 3] for j in range(nout)]
            empty = [[] for _ in range(nin)]
            w_a = [[1]] + [[] for _ in range(nin - 1)]
            w_b = [[] for _ in range(nin - 1)] + [[0, 2]]
            w_c = [[2]] * nin
            w_z = [[0]] + [[] for _ in range(nin - 1)]      # non-empty stack of empty items only
            for w1, w2 in ((None, w_a), (empty, w_b), ('noentries', w_c), (w_a, w_b), (w_a, w_a), ('default', empty), (w_z, w_a), (None, w_z)):
                out.append(dict(h='txid', p=dict(sig=sig, spk=spk, wit1=w1, wit2=w2)))
            for w in (None, empty, w_a, w_b, w_z):
                out.append(dict(h='twins', p=dict(sig=sig, spk=spk, wit=w)))
            for w in (None, w_a, w_z):
                out.append(dict(h='edited', p=dict(sig=sig, spk=spk, wit=w)))
    t_a = dict(sig=[1], spk=[1], wit=None)
    t_w = dict(sig=[0], spk=[0], wit=[[1]])
    for shp in ([], [t_a], [t_a, t_w], [t_w, t_w, t_a]):
        out.append(dict(h='block', p=dict(txshapes=shp)))
    return out
