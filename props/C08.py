"""C08 - script building, tokenising, number codec, classification predicates, sigop count."""
from refs import ref_script as RS

ID = 'C08'
FUNCTIONS = ['script.CScriptOp.encode_op_pushdata/encode_op_n/decode_op_n/is_small_int', 'script.CScript.__new__/__add__/__coerce_instance',
             'script.CScript.raw_iter/__iter__', 'script.CScript.is_p2sh/is_witness_scriptpubkey/is_witness_v0_*/is_push_only/'
             'has_canonical_pushes/is_valid/is_unspendable', 'script.CScript.GetSigOpCount', '_bignum.bn2vch/vch2bn/bn2mpi/mpi2bn/bn2bin/bin2bn']
ASSUMPTIONS = ['struct stub exact']
STUBS = ['struct']
OUTSIDE = ['arbitrary byte strings longer than 4 (quick) / 5 (thorough) bytes as scripts', 'integers with |v| >= 2^71',
           'token lists longer than 3 tokens', 'interior bytes of pushes longer than 6 bytes are concrete filler']
EXPECTED_LABELS = ['num: decode(encode(v)) == v', 'num: encode == reference minimal form', 'num: encode(decode(s)) == s for minimal s',
                   'build: bytes == reference push selection', 'build: cooked iteration == token sequence', 'build: rebuild == same bytes',
                   'raw: ranges partition the script', 'raw: invalid-script error exactly on a truncated push',
                   'pred: is_push_only', 'pred: has_canonical_pushes', 'sigops: legacy == reference', 'sigops: accurate == reference']


def bounds(tier):
    return dict(number_codec='all v with |v| < 2^71 (symbolic); all minimal strings of length 0..9',
                tokens='<= 3 tokens: opcode 0x4f..0xff symbolic, ints symbolic (|v| < 2^40), byte strings of length '
                       '{0,1,2,0x4b,0x4c,0xff,0x100,0xffff,0x10000}',
                raw_scripts='ALL byte strings of every length 0..%d (symbolic bytes)' % (4 if tier == 'quick' else 5))


# ------------------------------------------------------------------------------------------


def h_num_enc(ctx, lo, hi):
    BN = ctx.mod('bitcoin.core._bignum')
    v = ctx.int('v', lo, hi)
    enc = BN.bn2vch(v)
    ref = RS.num_encode(ctx, v)
    if ctx.check(len(enc) == len(ref), 'num: encode length == reference'):
        ctx.check(enc == ref, 'num: encode == reference minimal form')
    ctx.check(RS.is_minimal_num(ctx, enc), 'num: encoding is minimal')
    ctx.check(BN.vch2bn(enc) == v, 'num: decode(encode(v)) == v')


def h_num_dec(ctx, n):
    BN = ctx.mod('bitcoin.core._bignum')
    s = ctx.bytes('s', n)
    v = BN.vch2bn(s)
    ctx.check(v == RS.num_decode(ctx, s), 'num: decode == reference')
    ctx.assume(RS.is_minimal_num(ctx, s))
    back = BN.bn2vch(v)
    if ctx.check(len(back) == n, 'num: encode(decode(s)) length'):
        ctx.check(back == s, 'num: encode(decode(s)) == s for minimal s')


def _mk_token(ctx, S, kind, k):
    """-> (library token, reference bytes, expected cooked item (type tag, value))"""
    if kind == 'op':
        op = ctx.concrete(ctx.int('op%d' % k, 0x4f, 0xff))
        tok = S.CScriptOp(op)
        ref = ctx.bytes_of([op])
        if 0x51 <= op <= 0x60:
            cooked = ('int', op - 0x50)
        else:
            cooked = ('op', op)
        return tok, ref, cooked
    if kind == 'small':
        v = ctx.concrete(ctx.int('sm%d' % k, -1, 16))
        if v == -1:
            return v, ctx.bytes_of([0x4f]), ('op', 0x4f)
        if v == 0:
            return v, ctx.bytes_of([0]), ('int', 0)
        return v, ctx.bytes_of([0x50 + v]), ('int', v)
    if kind == 'int':
        v = ctx.int('iv%d' % k, -(1 << 40), 1 << 40)
        ctx.assume(ctx.or_(v < -1, v > 16))
        d = RS.num_encode(ctx, v)
        return v, RS.push_encode(ctx, d), ('bytes', d)
    n = int(kind)
    from props import common as K
    d = K.mk_bytes(ctx, 'bs%d' % k, n)
    ref = RS.push_encode(ctx, d)
    if n == 0:
        return d, ref, ('int', 0)
    return d, ref, ('bytes', d)


def _cooked_equal(ctx, S, item, exp):
    tag, val = exp
    if tag == 'op':
        return isinstance(item, S.CScriptOp) and item == val
    if tag == 'int':
        return (not isinstance(item, S.CScriptOp)) and isinstance(item, int) and item == val
    if isinstance(item, int):
        return False
    return (len(item) == len(val)) and item == val


def h_build(ctx, kinds):
    S = ctx.script
    toks, ref, cooked = [], ctx.B(b''), []
    for k, kind in enumerate(kinds):
        t, r, c = _mk_token(ctx, S, kind, k)
        toks.append(t)
        ref = ref + r
        cooked.append(c)
    sc = S.CScript(toks)
    if not ctx.check(len(sc) == len(ref), 'build: length == reference'):
        return
    ctx.check(sc == ref, 'build: bytes == reference push selection')
    # incremental building with + gives the same script
    acc = S.CScript()
    for t in toks:
        acc = acc + t
    ctx.check(acc == ref, 'build: a + b + c == CScript([a, b, c])')
    items = list(sc)
    if ctx.check(len(items) == len(cooked), 'build: cooked iteration length'):
        ctx.check(ctx.and_(*[_cooked_equal(ctx, S, i, e) for i, e in zip(items, cooked)]), 'build: cooked iteration == token sequence')
    again = S.CScript(items)
    ctx.check(again == sc, 'build: rebuild == same bytes')


def h_raw(ctx, n, band):
    """every byte string of length n (first byte restricted to a band only to spread work over cores)"""
    S = ctx.script
    b = ctx.bytes('s', n)
    if n:
        ctx.assume(ctx.and_(b[0] >= band[0], b[0] <= band[1]))
    sc = S.CScript(b)
    toks, ok = RS.tokenize(ctx, b)
    # raw iteration: partition, or invalid-script error exactly on a truncated push
    ops = []
    try:
        for (op, data, idx) in sc.raw_iter():
            ops.append((op, data, idx))
        raised = False
    except S.CScriptInvalidError:
        raised = True
    ctx.check(raised == (not ok), 'raw: invalid-script error exactly on a truncated push')
    if len(ops) != len(toks):
        ctx.fail('raw: ranges partition the script', 'token count %d vs %d' % (len(ops), len(toks)))
    else:
        conds = []
        pos = 0
        for (op, data, idx), (rop, rdata, s, e) in zip(ops, toks):
            conds += [op == rop, idx == s, idx == pos, (data is None) == (rdata is None)]
            if data is not None and rdata is not None:
                conds.append(len(data) == len(rdata) and data == rdata)
            pos = e
        if ok:
            conds.append(pos == n)
        ctx.check(ctx.and_(*conds), 'raw: ranges partition the script')
    # predicates
    ctx.check(ctx.iff(sc.is_valid(), ok), 'pred: is_valid')
    ctx.check(ctx.iff(sc.is_push_only(), RS.is_push_only(ctx, b)), 'pred: is_push_only')
    ctx.check(ctx.iff(sc.has_canonical_pushes(), RS.has_canonical_pushes(ctx, b)), 'pred: has_canonical_pushes')
    ctx.check(ctx.iff(sc.is_unspendable(), (n > 0) and b[0] == 0x6a), 'pred: is_unspendable')
    ctx.check(ctx.iff(sc.is_p2sh(), RS.is_p2sh(ctx, b)), 'pred: is_p2sh')
    ctx.check(ctx.iff(sc.is_witness_scriptpubkey(), RS.is_witness_program(ctx, b)), 'pred: is_witness_scriptpubkey')
    # sigop counts, up to the first malformed push
    for acc, lab in ((False, 'sigops: legacy == reference'), (True, 'sigops: accurate == reference')):
        try:
            got = sc.GetSigOpCount(acc)
        except S.CScriptInvalidError:
            ctx.fail(lab, 'invalid-script error instead of counting up to the malformed push')
            continue
        ctx.check(got == RS.sigop_count(ctx, b, acc), lab)


def h_templates(ctx, which):
    """fixed-shape predicates on full-length symbolic scripts (too long for the exhaustive family)"""
    S = ctx.script
    n = {'p2sh': 23, 'p2wpkh': 22, 'p2wsh': 34, 'np2wpkh': 23, 'np2wsh': 35, 'wp5': 5, 'wp42': 42, 'wp43': 43}[which]
    b = ctx.bytes('s', n)
    sc = S.CScript(b)
    ctx.check(ctx.iff(sc.is_p2sh(), RS.is_p2sh(ctx, b)), 'pred: is_p2sh')
    ctx.check(ctx.iff(sc.is_witness_v0_keyhash(), (n == 22) and ctx.and_(b[0] == 0, b[1] == 0x14)), 'pred: is_witness_v0_keyhash')
    ctx.check(ctx.iff(sc.is_witness_v0_scripthash(), (n == 34) and ctx.and_(b[0] == 0, b[1] == 0x20)), 'pred: is_witness_v0_scripthash')
    ctx.check(ctx.iff(sc.is_witness_v0_nested_keyhash(), (n == 23) and ctx.and_(b[0] == 0x16, b[1] == 0, b[2] == 0x14)),
              'pred: is_witness_v0_nested_keyhash')
    ctx.check(ctx.iff(sc.is_witness_v0_nested_scripthash(), (n == 35) and ctx.and_(b[0] == 0x22, b[1] == 0, b[2] == 0x20)),
              'pred: is_witness_v0_nested_scripthash')
    # is_witness_scriptpubkey forks on the first byte inside the library (CScriptOp lookup): restrict it to the
    # interesting neighbourhood here; all 256 first bytes are covered for short scripts by the raw family
    ctx.assume(ctx.or_(b[0] <= 1, ctx.and_(b[0] >= 0x4f, b[0] <= 0x62), b[0] >= 0xfe))
    ctx.check(ctx.iff(sc.is_witness_scriptpubkey(), RS.is_witness_program(ctx, b)), 'pred: is_witness_scriptpubkey')


def h_opn(ctx):
    S = ctx.script
    n = ctx.int('n', -3, 20)
    try:
        op = S.CScriptOp.encode_op_n(n)
        ctx.check(ctx.and_(n >= 0, n <= 16), 'op_n: encode range')
        ctx.check(op.decode_op_n() == n, 'op_n: decode(encode(n)) == n')
        ctx.check(op == ctx.ite(n == 0, 0, 0x50 + n), 'op_n: opcode value')
    except ValueError:
        ctx.check(ctx.or_(n < 0, n > 16), 'op_n: ValueError outside 0..16')


HARNESSES = {'num_enc': h_num_enc, 'num_dec': h_num_dec, 'build': h_build, 'raw': h_raw, 'templates': h_templates, 'opn': h_opn}

BANDS = [(0, 0x1f), (0x20, 0x3f), (0x40, 0x4b), (0x4c, 0x4c), (0x4d, 0x4e), (0x4f, 0x5f), (0x60, 0x6f), (0x70, 0x7f), (0x80, 0xab),
         (0xac, 0xad), (0xae, 0xaf), (0xb0, 0xd7), (0xd8, 0xff)]


def instances(tier):
    out = [dict(h='opn')]
    lim = 1 << 71
    cuts = [-lim + 1, -(1 << 63), -(1 << 31), -(1 << 15), -256, 0, 256, 1 << 15, 1 << 31, 1 << 63, lim - 1]
    for a, b in zip(cuts, cuts[1:]):
        out.append(dict(h='num_enc', p=dict(lo=a, hi=b)))
    for n in range(0, 10):
        out.append(dict(h='num_dec', p=dict(n=n)))
    kinds1 = ['op', 'small', 'int', '0', '1', '2', str(0x4b), str(0x4c), str(0xff), str(0x100), str(0xffff), str(0x10000)]
    for k in kinds1:
        out.append(dict(h='build', p=dict(kinds=[k])))
    pairs = [('small', '1'), ('1', 'int'), ('int', '2'), ('0', '2'), (str(0x4c), '1'), ('op', '0'), ('2', 'small'),
             ('1', 'small', '2'), ('op', '1', '0'), ('2', str(0x4b), '0'), ('0', '0', 'int')]
    if tier != 'quick':
        pairs += [('int', '0', 'int'), ('small', 'op'), ('op', 'int'), ('small', 'small'), (str(0xff), str(0x100), '1'), ('int', 'int')]
    for ks in pairs:
        out.append(dict(h='build', p=dict(kinds=list(ks))))
    maxn = 4 if tier == 'quick' else 5
    for n in range(0, maxn + 1):
        if n < 3:
            out.append(dict(h='raw', p=dict(n=n, band=[0, 255])))
        else:
            for bd in BANDS:
                out.append(dict(h='raw', p=dict(n=n, band=list(bd)), max_seconds=3000))
    for w in ('p2sh', 'p2wpkh', 'p2wsh', 'np2wpkh', 'np2wsh', 'wp5', 'wp42', 'wp43'):
        out.append(dict(h='templates', p=dict(which=w)))
    return out
