"""C12 - addresses map one-to-one to standard scripts, on the selected chain only."""
from refs import ref_bech32 as RB
from refs import ref_script as RS

ID = 'C12'
FUNCTIONS = ['wallet.CBitcoinAddress.__new__/from_scriptPubKey', 'wallet.CBech32BitcoinAddress.from_bytes/from_scriptPubKey', 'wallet.CBase58BitcoinAddress.from_bytes/from_scriptPubKey',
             'wallet.P2SHBitcoinAddress / P2PKHBitcoinAddress / P2WSHBitcoinAddress / P2WPKHBitcoinAddress (from_bytes, from_scriptPubKey, to_scriptPubKey, from_pubkey)',
             'bitcoin.SelectParams', 'core._SelectCoreParams', 'base58.CBase58Data.__new__/__str__', 'bech32.CBech32Data.__new__/__str__', 'segwit_addr.encode/decode']
ASSUMPTIONS = ['compositional over base58 text: in the symbolic run base58.encode/decode are replaced by an opaque text object denoting the byte string '
               '(their inverse-bijection is C10); a Base58Check text is assumed not to be a valid bech32 string and a bech32 text not to carry a valid Base58Check checksum '
               '(true up to a 2^-32 coincidence); concrete replay uses the real functions',
               'double-SHA256 / HASH160 uninterpreted', 'public-key validity is not consulted (accept_invalid=True path of the bare-pubkey variants)']
STUBS = ['hashlib (UF)', 'bitcoin.core.key.CECKey (oracle)', 'struct']
OUTSIDE = ['arbitrary strings longer than 8 characters', 'bare uncompressed public keys: known finding (the converter hashes 64 of the 65 key bytes; pinned by the test suite)']
EXPECTED_LABELS = ['roundtrip: script -> address -> text -> address -> script', 'class / prefix / payload as prescribed for the chain',
                   'cross-chain text is refused with CBitcoinAddressError', 'unsupported witness version refused with CBitcoinAddressError',
                   'wrong payload length refused with CBitcoinAddressError', 'arbitrary text refused with CBitcoinAddressError']
CHAINS = ['mainnet', 'testnet', 'signet', 'regtest']
TABLE = {'mainnet': dict(pk=0, sh=5, hrp='bc'), 'testnet': dict(pk=111, sh=196, hrp='tb'), 'signet': dict(pk=111, sh=196, hrp='tb'),
         'regtest': dict(pk=111, sh=196, hrp='bcrt')}


def bounds(tier):
    return dict(chains='all sequences of <= 3 SelectParams calls over the 4 chains (quick: all of length 1 and 2, length 3 sampled)',
                payloads='20-byte hashes and 20/32-byte programs fully symbolic', variants='non-canonical pushes (PUSHDATA1/2/4), bare compressed pubkey',
                negatives='cross-chain texts for all ordered chain pairs with different prefixes; witness versions 1..16; Base58Check payload lengths 0..34 '
                          'with known and unknown version bytes; arbitrary strings of <= %d characters over all code points' % (6 if tier == 'quick' else 8))


class _Patched(object):
    """symbolic run only: base58 text is an opaque object denoting its byte string (see ASSUMPTIONS)"""

    def __init__(self, ctx):
        self.ctx = ctx
        self.on = ctx.symbolic

    def __enter__(self):
        if not self.on:
            return self
        ctx = self.ctx
        from symx import vtypes
        B58 = ctx.mod('bitcoin.base58')
        BE = ctx.mod('bitcoin.bech32')

        class B58Text(vtypes.VStr):
            def __init__(self, b):
                self._d = []
                self.b = b

            def is_concrete(self):
                return False

            def __len__(self):
                return 1 + len(self.b)

            def __bool__(self):
                return True

            def __eq__(self, o):
                if isinstance(o, B58Text):
                    return (len(self.b) == len(o.b)) and self.b == o.b
                return False

            def __ne__(self, o):
                r = self.__eq__(o)
                return ctx.not_(r)

            __hash__ = vtypes.VStr.__hash__
        self.B58Text = B58Text
        self.saved = (B58.encode, B58.decode, BE.decode)
        real_dec58, real_bech = B58.decode, BE.decode

        def enc(b):
            return B58Text(vtypes.VBytes(b))

        def dec(s):
            if isinstance(s, B58Text):
                return s.b
            if isinstance(s, vtypes.VStr) and not s.is_concrete() and len(s) > 20:
                # a bech32 text offered to the base58 parser: stated assumption - it carries no valid Base58Check checksum
                raise B58.Base58ChecksumError('bech32 text is not Base58Check (assumption)')
            return real_dec58(s)

        def bdec(hrp, s):
            if isinstance(s, B58Text):
                return (None, None)
            return real_bech(hrp, s)
        B58.encode, B58.decode, BE.decode = enc, dec, bdec
        return self

    def __exit__(self, *a):
        if self.on:
            B58 = self.ctx.mod('bitcoin.base58')
            BE = self.ctx.mod('bitcoin.bech32')
            B58.encode, B58.decode, BE.decode = self.saved
        return False


def _b58check_text(ctx, pat, ver, payload):
    """text of a Base58Check string with a valid checksum"""
    B58 = ctx.mod('bitcoin.base58')
    k = ctx.bytes_of([ver]) + payload
    k = k + ctx.dsha256(k)[:4]
    if ctx.symbolic:
        return pat.B58Text(k)
    return B58.encode(k)


def _script(ctx, kind, payload):
    B = ctx.B
    if kind == 'p2pkh':
        return B(b'\x76\xa9\x14') + payload + B(b'\x88\xac')
    if kind == 'p2sh':
        return B(b'\xa9\x14') + payload + B(b'\x87')
    if kind == 'p2wpkh':
        return B(b'\x00\x14') + payload
    if kind == 'p2wsh':
        return B(b'\x00\x20') + payload
    raise AssertionError(kind)


def _select_seq(ctx, seq):
    for c in seq:
        ctx.select_chain(c)


def h_roundtrip(ctx, seq, kind):
    W = ctx.mod('bitcoin.wallet')
    S = ctx.script
    _select_seq(ctx, seq)
    chain = seq[-1]
    t = TABLE[chain]
    ctx.check(ctx.bitcoin.params.NAME == chain and ctx.core.coreparams.NAME == chain, 'SelectParams keeps bitcoin.params and coreparams in step')
    n = 32 if kind == 'p2wsh' else 20
    payload = ctx.bytes('payload', n)
    script = _script(ctx, kind, payload)
    with _Patched(ctx) as pat:
        addr = W.CBitcoinAddress.from_scriptPubKey(S.CScript(script))
        cls = {'p2pkh': W.P2PKHBitcoinAddress, 'p2sh': W.P2SHBitcoinAddress, 'p2wpkh': W.P2WPKHBitcoinAddress, 'p2wsh': W.P2WSHBitcoinAddress}[kind]
        ok = addr.__class__ is cls and len(addr) == n
        if kind in ('p2pkh', 'p2sh'):
            ok = ok and addr.nVersion == t['pk' if kind == 'p2pkh' else 'sh']
        else:
            ok = ok and addr.witver == 0
        ctx.check(ctx.and_(ok, addr.to_bytes() == payload), 'class / prefix / payload as prescribed for the chain')
        text = ctx.to_str(addr)
        if kind in ('p2wpkh', 'p2wsh'):
            ref = RB.encode_address(ctx, t['hrp'], 0, [payload[i] for i in range(n)])
            ctx.check(text == ctx.str_concat(t['hrp'] + '1', ctx.str_from_table(RB.CHARSET, ref)), 'bech32 text == BIP173 reference for the chain prefix')
        else:
            ctx.check(text == _b58check_text(ctx, pat, t['pk' if kind == 'p2pkh' else 'sh'], payload), 'base58 text == Base58Check(version, payload)')
        back = W.CBitcoinAddress(text)
        ctx.check(back.__class__ is cls, 'roundtrip: parsed class')
        s2 = back.to_scriptPubKey()
        ctx.check(ctx.and_(len(s2) == len(script), s2 == script, ctx.to_str(back) == text), 'roundtrip: script -> address -> text -> address -> script')
    ctx.select_chain('mainnet')


def h_rechain(ctx, chain_a, chain_b, kind):
    """the same script converted under chain A and then, in the same process, under chain B"""
    W = ctx.mod('bitcoin.wallet')
    S = ctx.script
    n = 32 if kind == 'p2wsh' else 20
    payload = ctx.bytes('payload', n)
    script = S.CScript(_script(ctx, kind, payload))
    with _Patched(ctx) as pat:
        texts = []
        for chain in (chain_a, chain_b, chain_a):
            ctx.select_chain(chain)
            t = TABLE[chain]
            addr = W.CBitcoinAddress.from_scriptPubKey(script)
            text = ctx.to_str(addr)
            if kind in ('p2pkh', 'p2sh'):
                ver = t['pk' if kind == 'p2pkh' else 'sh']
                ctx.check(ctx.and_(addr.nVersion == ver, text == _b58check_text(ctx, pat, ver, payload)),
                          'class / prefix / payload as prescribed for the chain', detail='after switching %s -> %s' % (chain_a, chain_b))
            else:
                ref = RB.encode_address(ctx, t['hrp'], 0, [payload[i] for i in range(n)])
                ctx.check(text == ctx.str_concat(t['hrp'] + '1', ctx.str_from_table(RB.CHARSET, ref)),
                          'class / prefix / payload as prescribed for the chain', detail='after switching %s -> %s' % (chain_a, chain_b))
            s2 = addr.to_scriptPubKey()
            ctx.check(s2 == script, 'roundtrip: script -> address -> text -> address -> script')
    ctx.select_chain('mainnet')


def h_padded(ctx, chain, plen):
    """bech32 text whose data part carries one surplus all-zero group (exactly five padding bits) under a valid checksum"""
    W = ctx.mod('bitcoin.wallet')
    ctx.select_chain(chain)
    hrp = TABLE[chain]['hrp']
    prog = ctx.bytes('prog', plen)
    data = [0] + RB.convert_8to5(ctx, [prog[i] for i in range(plen)])
    if (plen * 8) % 5 == 0:
        data = data + [0]
    else:
        return
    syms = data + RB.create_checksum(ctx, hrp, data)
    text = ctx.str_concat(hrp + '1', ctx.str_from_table(RB.CHARSET, syms))
    with _Patched(ctx):
        _refused(ctx, W, text, 'non-canonical bech32 padding refused with CBitcoinAddressError')
    ctx.select_chain('mainnet')


def h_mixedcase(ctx, chain, kind, which):
    """bech32 address text with the human-readable part and the data part in different letter cases"""
    W = ctx.mod('bitcoin.wallet')
    S = ctx.script
    ctx.select_chain(chain)
    hrp = TABLE[chain]['hrp']
    n = 32 if kind == 'p2wsh' else 20
    payload = ctx.bytes('payload', n)
    with _Patched(ctx):
        text = ctx.to_str(W.CBitcoinAddress.from_scriptPubKey(S.CScript(_script(ctx, kind, payload))))
        W.CBitcoinAddress(text)
        data = text[len(hrp) + 1:]
        if which.startswith('nonascii'):
            # an all-upper-case / all-lower-case rendering with ONE arbitrary non-ASCII code point in place of a data character
            pos = int(which.split('@')[1])
            base = text.upper() if 'upper' in which else text
            bad = ctx.str_concat(base[:len(hrp) + 1 + pos], ctx.text('wild', 1, 128, 0x10ffff), base[len(hrp) + 2 + pos:])
            mixed = True
        elif which == 'upper_hrp':
            bad = ctx.str_concat(hrp.upper() + '1', data)
            mixed = ctx.or_(*[ctx.and_(ctx.ord1(data[i]) >= 97, ctx.ord1(data[i]) <= 122) for i in range(len(data))])
        elif which == 'one_hrp_letter':
            bad = ctx.str_concat(hrp[0].upper() + hrp[1:] + '1', data)
            mixed = True
        else:
            bad = ctx.str_concat(hrp + '1', data.upper())
            mixed = ctx.or_(*[ctx.and_(ctx.ord1(data[i]) >= 97, ctx.ord1(data[i]) <= 122) for i in range(len(data))])
        try:
            W.CBitcoinAddress(bad)
            ctx.check(ctx.not_(mixed), 'mixed-case address text refused with CBitcoinAddressError')
        except W.CBitcoinAddressError:
            ctx.check(True, 'mixed-case address text refused with CBitcoinAddressError')
    ctx.select_chain('mainnet')


def h_variants(ctx, chain, variant):
    """P2PKH converter: non-canonical pushes and bare pubkeys"""
    W = ctx.mod('bitcoin.wallet')
    S = ctx.script
    ctx.select_chain(chain)
    t = TABLE[chain]
    B = ctx.B
    with _Patched(ctx) as pat:
        if variant.startswith('pushdata'):
            h = ctx.bytes('payload', 20)
            hdr = {'pushdata1': b'\x4c\x14', 'pushdata2': b'\x4d\x14\x00', 'pushdata4': b'\x4e\x14\x00\x00\x00'}[variant]
            script = B(b'\x76\xa9' + hdr) + h + B(b'\x88\xac')
            want = h
        else:
            n = {'pubkey33': 33, 'pubkey65': 65}[variant]
            pk = ctx.bytes('pubkey', n)
            script = RS.push_encode(ctx, pk) + B(b'\xac')
            want = ctx.hash160(pk)
        addr = W.P2PKHBitcoinAddress.from_scriptPubKey(S.CScript(script))
        ctx.check(ctx.and_(addr.__class__ is W.P2PKHBitcoinAddress, addr.nVersion == t['pk'], len(addr) == 20, addr.to_bytes() == want),
                  'variant maps to the P2PKH address of the key hash', detail=variant)
        std = addr.to_scriptPubKey()
        ctx.check(std == _script(ctx, 'p2pkh', want), 'variant address converts to the standard P2PKH script')
    ctx.select_chain('mainnet')


def _refused(ctx, W, text, label, detail=None):
    try:
        a = W.CBitcoinAddress(text)
        ctx.fail(label, detail or ('accepted as %s' % type(a).__name__))
    except W.CBitcoinAddressError:
        ctx.check(True, label)


def h_cross(ctx, chain_a, chain_b, kind):
    """a valid address text of chain A parsed while chain B (different prefixes) is selected"""
    W = ctx.mod('bitcoin.wallet')
    S = ctx.script
    n = 32 if kind == 'p2wsh' else 20
    payload = ctx.bytes('payload', n)
    with _Patched(ctx):
        ctx.select_chain(chain_a)
        text = ctx.to_str(W.CBitcoinAddress.from_scriptPubKey(S.CScript(_script(ctx, kind, payload))))
        first = W.CBitcoinAddress(text)          # history: the text is parsed successfully under its own chain first
        ctx.check(first.to_bytes() == payload, 'roundtrip: parsed class')
        ctx.select_chain(chain_b)
        _refused(ctx, W, text, 'cross-chain text is refused with CBitcoinAddressError', '%s address of %s accepted under %s' % (kind, chain_a, chain_b))
    ctx.select_chain('mainnet')


def h_witver(ctx, chain, ver, plen):
    W = ctx.mod('bitcoin.wallet')
    ctx.select_chain(chain)
    prog = ctx.bytes('prog', plen)
    ref = RB.encode_address(ctx, TABLE[chain]['hrp'], ver, [prog[i] for i in range(plen)])
    text = ctx.str_concat(TABLE[chain]['hrp'] + '1', ctx.str_from_table(RB.CHARSET, ref))
    with _Patched(ctx):
        _refused(ctx, W, text, 'unsupported witness version refused with CBitcoinAddressError', 'version %d' % ver)
    ctx.select_chain('mainnet')


def h_v0len(ctx, chain, plen):
    """witness v0 programs that are neither 20 nor 32 bytes never form an address (bech32 layer already refuses them)"""
    W = ctx.mod('bitcoin.wallet')
    S = ctx.script
    ctx.select_chain(chain)
    prog = ctx.bytes('prog', plen)
    script = ctx.B(bytes([0, plen])) + prog
    with _Patched(ctx):
        try:
            W.CBitcoinAddress.from_scriptPubKey(S.CScript(script))
            ctx.fail('non-standard script has no address')
        except W.CBitcoinAddressError:
            ctx.check(True, 'non-standard script has no address')
    ctx.select_chain('mainnet')


def h_b58len(ctx, chain, plen, which):
    """Base58Check text with a valid checksum: version byte known / symbolic, payload of plen bytes"""
    W = ctx.mod('bitcoin.wallet')
    ctx.select_chain(chain)
    t = TABLE[chain]
    payload = ctx.bytes('payload', plen)
    ver = ctx.int('ver', 0, 255) if which == 'any' else t[which]
    with _Patched(ctx) as pat:
        text = _b58check_text(ctx, pat, ver, payload)
        valid = (plen == 20) and ctx.or_(ver == t['pk'], ver == t['sh'])
        try:
            a = W.CBitcoinAddress(text)
            ctx.check(valid, 'wrong payload length refused with CBitcoinAddressError', detail='payload %d bytes accepted as %s' % (plen, type(a).__name__))
            if plen == 20:
                ctx.check(ctx.and_(a.nVersion == ver, a.to_bytes() == payload), 'parsed version and payload')
        except W.CBitcoinAddressError:
            ctx.check(ctx.not_(valid), 'valid Base58Check address accepted')
    ctx.select_chain('mainnet')


def h_arbitrary(ctx, chain, n):
    W = ctx.mod('bitcoin.wallet')
    ctx.select_chain(chain)
    s = ctx.text('s', n, 0, 0x10ffff)
    _refused(ctx, W, s, 'arbitrary text refused with CBitcoinAddressError')
    ctx.select_chain('mainnet')


HARNESSES = {'mixedcase': h_mixedcase, 'rechain': h_rechain, 'padded': h_padded, 'roundtrip': h_roundtrip, 'variants': h_variants, 'cross': h_cross, 'witver': h_witver, 'v0len': h_v0len, 'b58len': h_b58len,
             'arbitrary': h_arbitrary}


def instances(tier):
    import itertools
    out = []
    kinds = ['p2pkh', 'p2sh', 'p2wpkh', 'p2wsh']
    seqs = [[c] for c in CHAINS] + [list(p) for p in itertools.product(CHAINS, repeat=2)]
    tri = [list(p) for p in itertools.product(CHAINS, repeat=3)]
    seqs += tri if tier != 'quick' else tri[::5]
    for i, seq in enumerate(seqs):
        for k in (kinds if (tier != 'quick' or len(seq) == 1) else [kinds[i % 4]]):
            out.append(dict(h='roundtrip', p=dict(seq=seq, kind=k)))
    for chain in CHAINS:
        for v in ('pushdata1', 'pushdata2', 'pushdata4', 'pubkey33', 'pubkey65'):
            out.append(dict(h='variants', p=dict(chain=chain, variant=v)))
    for a in CHAINS:
        for b in CHAINS:
            for k in kinds:
                ta, tb = TABLE[a], TABLE[b]
                differ = (ta['hrp'] != tb['hrp']) if k in ('p2wpkh', 'p2wsh') else (ta['pk'] != tb['pk'])
                if differ:
                    out.append(dict(h='cross', p=dict(chain_a=a, chain_b=b, kind=k)))
    for a, b in (('mainnet', 'testnet'), ('testnet', 'mainnet'), ('mainnet', 'regtest'), ('regtest', 'signet'), ('signet', 'mainnet')):
        for k in kinds:
            out.append(dict(h='rechain', p=dict(chain_a=a, chain_b=b, kind=k)))
    for chain in CHAINS:
        out.append(dict(h='padded', p=dict(chain=chain, plen=20)))
    for kind, which in (('p2wpkh', 'nonascii_upper@7'), ('p2wpkh', 'nonascii_lower@20'), ('p2wsh', 'nonascii_upper@33')):
        out.append(dict(h='mixedcase', p=dict(chain='mainnet', kind=kind, which=which), max_seconds=1500))
    for i, which in enumerate(('upper_hrp', 'one_hrp_letter', 'upper_data')):
        for kind in ('p2wpkh', 'p2wsh'):
            out.append(dict(h='mixedcase', p=dict(chain=CHAINS[(i + (kind == 'p2wsh')) % 4], kind=kind, which=which)))
    for ver in range(1, 17):
        out.append(dict(h='witver', p=dict(chain=CHAINS[ver % 4], ver=ver, plen=[20, 32, 2, 40][ver % 4])))
    for plen in (2, 19, 21, 31, 33, 40):
        out.append(dict(h='v0len', p=dict(chain=CHAINS[plen % 4], plen=plen)))
    for plen in range(0, 35):
        out.append(dict(h='b58len', p=dict(chain=CHAINS[plen % 4], plen=plen, which=['pk', 'sh', 'any'][plen % 3])))
    for which in ('pk', 'sh', 'any'):
        for chain in CHAINS:
            out.append(dict(h='b58len', p=dict(chain=chain, plen=20, which=which)))
    for n in range(0, (6 if tier == 'quick' else 8) + 1):
        out.append(dict(h='arbitrary', p=dict(chain=CHAINS[n % 4], n=n), max_seconds=1500))
    return out
