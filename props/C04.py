"""C04 - BIP143 witness-v0 signature hash equals the spec over the full field range."""
from refs import ref_sighash as SH
from props import common as K

ID = 'C04'
FUNCTIONS = ['script.SignatureHash (SIGVERSION_WITNESS_V0 branch)', 'core.COutPoint.stream_serialize', 'core.CTxOut.serialize',
             'serialize.BytesSerializer.stream_serialize']
ASSUMPTIONS = ['SHA-256 uninterpreted (digest equality decided through pre-image equality, including the three inner hashes)']
STUBS = ['hashlib (UF)', 'struct', 'io.BytesIO']
OUTSIDE = ['input index out of range (the property quantifies over valid indices)', 'hash types outside one byte',
           'script codes longer than 0x100 bytes; interior bytes of script codes longer than 6 bytes are concrete filler']
EXPECTED_LABELS = ['bip143: digest == H(H(reference pre-image))', 'bip143: defined over the whole field range (no exception)']


def bounds(tier):
    return dict(n_in='1..3', n_out='0..3', hashtype='one symbolic byte', amount='symbolic 0..2^63-1',
                script_code_len=[0, 1, 3, 0xfc, 0xfd, 0x100], fields='all symbolic over full wire range (nLockTime/nSequence to 2^32-1)')


def h_bip143(ctx, sig, spk, wit, idx, sclen, mutable):
    S = ctx.script
    f = K.mk_tx_fields(ctx, dict(sig=sig, spk=spk, wit=wit))
    tx = K.build_tx(ctx, f, mutable)
    before = tx.serialize()
    code = K.mk_bytes(ctx, 'code', sclen)
    amount = ctx.int('amount', 0, (1 << 63) - 1)
    ht = ctx.int('hashtype', 0, 255)
    try:
        h = S.SignatureHash(S.CScript(code), tx, idx, ht, amount=amount, sigversion=S.SIGVERSION_WITNESS_V0)
    except Exception as e:
        ctx.fail('bip143: defined over the whole field range (no exception)', '%s: %s' % (type(e).__name__, e))
        return
    ctx.check(True, 'bip143: defined over the whole field range (no exception)')
    ref = SH.bip143_preimage(ctx, f, code, idx, amount, ht)
    ctx.check(h == ctx.dsha256(ref), 'bip143: digest == H(H(reference pre-image))')
    ctx.check(tx.serialize() == before, 'txTo unchanged')


def h_resign(ctx, sig, spk, idx, ht_class):
    """history: sign a mutable transaction, edit it in place, sign again - the second digest must be that of the new field values"""
    S = ctx.script
    C = ctx.core
    f = K.mk_tx_fields(ctx, dict(sig=sig, spk=spk, wit=None))
    tx = K.build_tx(ctx, f, True)
    code = ctx.bytes('code', 2)
    amount = ctx.int('amount', 0, (1 << 63) - 1)
    ht = ctx.int('hashtype', 0, 255)
    ctx.assume((ht & 0x1f) == ht_class if ht_class in (2, 3) else ctx.and_((ht & 0x1f) != 2, (ht & 0x1f) != 3))
    h1 = S.SignatureHash(S.CScript(code), tx, idx, ht, amount=amount, sigversion=S.SIGVERSION_WITNESS_V0)
    ctx.check(h1 == ctx.dsha256(SH.bip143_preimage(ctx, f, code, idx, amount, ht)), 'bip143: digest == H(H(reference pre-image))')
    g = dict(f)
    g['vin'] = [dict(i) for i in f['vin']]
    g['vout'] = [dict(o) for o in f['vout']]
    g['vin'][0]['nSequence'] = ctx.int('new_seq', 0, 0xffffffff)
    tx.vin[0].nSequence = g['vin'][0]['nSequence']
    g['vin'][-1]['hash'] = ctx.bytes('new_hash', 32)
    tx.vin[-1].prevout.hash = g['vin'][-1]['hash']
    if g['vout']:
        g['vout'][0]['nValue'] = ctx.int('new_val', -(1 << 63), (1 << 63) - 1)
        tx.vout[0].nValue = g['vout'][0]['nValue']
    # first after the in-place edits only (object identity and list lengths unchanged) ...
    import copy
    g_mid = dict(g)
    g_mid['vin'] = [dict(i) for i in g['vin']]
    g_mid['vout'] = [dict(o) for o in g['vout']]
    h_mid = S.SignatureHash(S.CScript(code), tx, idx, ht, amount=amount, sigversion=S.SIGVERSION_WITNESS_V0)
    ctx.check(h_mid == ctx.dsha256(SH.bip143_preimage(ctx, g_mid, code, idx, amount, ht)), 'bip143: digest after in-place edits == reference of the new values',
              detail='same object, same list lengths')
    # ... then after a length-changing edit as well
    newout = dict(nValue=ctx.int('app_val', 0, 1000), scriptPubKey=ctx.bytes('app_spk', 1))
    g['vout'].append(newout)
    tx.vout.append(C.CMutableTxOut(newout['nValue'], S.CScript(newout['scriptPubKey'])))
    h2 = S.SignatureHash(S.CScript(code), tx, idx, ht, amount=amount, sigversion=S.SIGVERSION_WITNESS_V0)
    ctx.check(h2 == ctx.dsha256(SH.bip143_preimage(ctx, g, code, idx, amount, ht)), 'bip143: digest after in-place edits == reference of the new values')


HARNESSES = {'bip143': h_bip143, 'resign': h_resign}


def instances(tier):
    out = []
    small = [0, 1, 2]
    lens = [0, 1, 3, 0xfc, 0xfd, 0x100]
    n = 0
    for nin in (1, 2, 3):
        for nout in (0, 1, 2, 3):
            for idx in range(nin):
                sig = [small[(i + nout) % 3] for i in range(nin)]
                spk = [small[(j + nin) % 3] for j in range(nout)]
                ls = [lens[n % len(lens)], lens[(n + 3) % len(lens)]] if tier == 'quick' else lens
                for k, sl in enumerate(ls):
                    wit = None if (n + k) % 2 else [[2]] + [[] for _ in range(nin - 1)]
                    out.append(dict(h='bip143', p=dict(sig=sig, spk=spk, wit=wit, idx=idx, sclen=sl, mutable=bool((n + k) % 3 == 0))))
                n += 1
    for sig, spk, idx in (([1], [1], 0), ([0, 1], [1, 0], 1), ([1, 0], [], 0)):
        for cls in (1, 2, 3):
            out.append(dict(h='resign', p=dict(sig=sig, spk=spk, idx=idx, ht_class=cls)))
    return out
