"""C07 - script verification is total, contained and side-effect free on any input (bounded)."""
from refs import ref_script as RS
from props import common as K
from props import C06 as P6

ID = 'C07'
FUNCTIONS = ['scripteval.VerifyScript', 'scripteval.EvalScript', 'scripteval._EvalScript (all opcode branches)', 'scripteval.EvalScriptError hierarchy',
             'script.CScript.raw_iter', 'script.RawSignatureHash', 'script.FindAndDelete', 'core.CMutableTransaction.from_tx']
ASSUMPTIONS = ['OpenSSL is replaced by the oracle stub: exceptions originating inside OpenSSL are outside the claim',
               'termination: every explored path ends (loop trip counts are bounded by the concrete script lengths)']
STUBS = ['bitcoin.core.key.CECKey (oracle)', 'hashlib (UF)', 'struct']
OUTSIDE = ['arbitrary byte strings longer than the stated lengths (structured long families: truncated PUSHDATA1/2/4 with symbolic length fields '
           'and concrete filler up to 10 001 bytes)', 'CLEANSTACK without P2SH (documented precondition, asserted)']
EXPECTED_LABELS = ['only ValidationError escapes', 'transaction unchanged', 'scripts unchanged', 'captured state within limits']


def bounds(tier):
    return dict(arbitrary='scriptSig x scriptPubKey as arbitrary symbolic byte strings of lengths (0,0) (1,0) (0,1) (1,1) (2,0) (0,2)%s'
                % ('' if tier == 'quick' else ' (2,1) (1,2) (3,0) (0,3)'), tx='1..2 inputs, symbolic fields, mutable and immutable',
                inIdx='0, n-1, n, n+1', flags='the 12 admissible subsets (quick: 3 of them on the heavy shapes)',
                structured='PUSHDATA1/2/4 with symbolic length bytes over filler of {0,1,2,75,76,520,521,10000} bytes; P2SH-shaped scriptPubKey with '
                           'arbitrary 1..2-byte redeem script; signature opcodes with out-of-range input index')


def _run(ctx, ssig, spk, tx, idx, flags, f=None):
    SE = ctx.scripteval
    S = ctx.script
    C = ctx.core
    before = tx.serialize()
    s1, s2 = S.CScript(ssig), S.CScript(spk)
    try:
        SE.VerifyScript(s1, s2, tx, idx, flags=P6._flags(ctx, flags))
    except C.ValidationError as e:
        ctx.check(True, 'only ValidationError escapes')
        if isinstance(e, SE.EvalScriptError):
            ok = True
            if e.stack is not None:
                n = len(e.stack) + (len(e.altstack) if e.altstack is not None else 0)
                ok = ok and n <= 1003
            if e.nOpCount is not None:
                ok = ok and e.nOpCount <= 221
            ctx.check(ok, 'captured state within limits')
    else:
        ctx.check(True, 'only ValidationError escapes')
    ctx.check(tx.serialize() == before, 'transaction unchanged')
    if f is not None:
        ctx.check(K.tx_fields_equal(ctx, tx, f), 'transaction unchanged')
    ctx.check(ctx.and_(s1 == ssig, s2 == spk, len(s1) == len(ssig), len(s2) == len(spk)), 'scripts unchanged')


def _symtx(ctx, nin, mutable, nout=1):
    f = K.mk_tx_fields(ctx, dict(sig=[0] * nin, spk=[1] * nout, wit=None), pre='tx')
    return K.build_tx(ctx, f, mutable), f


def h_arbitrary(ctx, n1, n2, flags, nin, idx, mutable, band=None):
    ssig = ctx.bytes('g', n1)
    spk = ctx.bytes('k', n2)
    if band is not None:
        first = ssig[0] if n1 else spk[0]
        ctx.assume(ctx.and_(first >= band[0], first <= band[1]))
    tx, f = _symtx(ctx, nin, mutable)
    _run(ctx, ssig, spk, tx, idx, flags, f)


def h_pushdata(ctx, opcode, filler, where, flags):
    """PUSHDATA1/2/4 header with symbolic length bytes, concrete filler; in scriptSig or scriptPubKey"""
    nlen = {0x4c: 1, 0x4d: 2, 0x4e: 4}[opcode]
    lb = ctx.bytes('len', nlen)
    if filler > 80:
        # long filler: declared length symbolic within +-2 of the available bytes (and the all-ones value)
        declared = sum(lb[i] * (256 ** i) for i in range(nlen))
        ctx.assume(ctx.or_(ctx.and_(declared >= filler - 2, declared <= filler + 2), declared == 256 ** nlen - 1))
    script = ctx.B(bytes([opcode])) + lb + ctx.B(bytes([0x51]) * filler)
    one = ctx.B(b'\x51')
    tx, f = _symtx(ctx, 1, False)
    if where == 'sig':
        _run(ctx, script, one, tx, 0, flags, f)
    else:
        _run(ctx, one, script, tx, 0, flags, f)


def h_trunc_header(ctx, opcode, have, flags):
    """script ending inside the PUSHDATA length field"""
    script = ctx.B(b'\x51') + ctx.B(bytes([opcode])) + ctx.bytes('part', have)
    tx, f = _symtx(ctx, 1, False)
    _run(ctx, ctx.B(b''), script, tx, 0, flags, f)
    _run(ctx, script, ctx.B(b'\x51'), tx, 0, flags, f)


def h_p2sh_garbage(ctx, nred, flags, mutable):
    redeem = ctx.bytes('r', nred)
    h = ctx.hash160(redeem)
    d = ctx.int('hdelta', 0, 1)
    spk = ctx.B(b'\xa9\x14') + ctx.bytes_of([(h[0] + d) % 256]) + h[1:] + ctx.B(b'\x87')
    ssig = RS.push_encode(ctx, redeem)
    tx, f = _symtx(ctx, 1, mutable)
    _run(ctx, ssig, spk, tx, 0, flags, f)


def h_sigops(ctx, shape, nin, idx, mutable):
    """signature opcodes with symbolic data and in-range / out-of-range input indices"""
    B = ctx.B
    push = lambda d: RS.push_encode(ctx, d)
    sig = ctx.bytes('sig', shape['siglen'])
    pk = ctx.bytes('pk', 33)
    tx, f = _symtx(ctx, nin, mutable, shape.get('nout', 1))
    if shape['kind'] == 'checksig':
        _run(ctx, push(sig), push(pk) + B(bytes([shape['op']])), tx, idx, (), f)
    else:
        spk = B(b'\x51') + push(pk) + push(ctx.bytes('pk2', 33)) + B(bytes([0x52, shape['op']]))
        _run(ctx, B(b'\x00') + push(sig), spk, tx, idx, shape.get('flags', ()), f)


HARNESSES = {'arbitrary': h_arbitrary, 'pushdata': h_pushdata, 'trunc_header': h_trunc_header, 'p2sh_garbage': h_p2sh_garbage, 'sigops': h_sigops}
BANDS = [(0, 0x4b), (0x4c, 0x60), (0x61, 0x7f), (0x80, 0xa5), (0xa6, 0xff)]


def instances(tier):
    out = []
    FS = P6.FLAGSETS
    quick_fs = [(), ('P2SH', 'CLEANSTACK'), ('P2SH', 'NULLDUMMY', 'CLEANSTACK', 'DISCOURAGE')]
    shapes = [(0, 0), (1, 0), (0, 1), (1, 1), (2, 0), (0, 2)]
    if tier != 'quick':
        shapes += [(2, 1), (1, 2), (3, 0), (0, 3)]
    k = 0
    for (n1, n2) in shapes:
        heavy = n1 + n2 >= 2
        vheavy = n1 + n2 >= 3
        for fs in (([()] if (n1 and n2) else quick_fs) if vheavy else (FS if (tier != 'quick' or not heavy) else quick_fs)):
            nin = 1 + k % 2
            idx = [0, nin - 1, nin, nin + 1][k % 4]
            mutable = bool(k % 3 == 0)
            k += 1
            if heavy:
                for bd in BANDS:
                    out.append(dict(h='arbitrary', p=dict(n1=n1, n2=n2, flags=list(fs), nin=nin, idx=idx, mutable=mutable, band=list(bd)), max_seconds=2500))
            else:
                out.append(dict(h='arbitrary', p=dict(n1=n1, n2=n2, flags=list(fs), nin=nin, idx=idx, mutable=mutable)))
    for opcode in (0x4c, 0x4d, 0x4e):
        for filler in (0, 1, 2, 75, 76, 520, 521, 10000):
            if opcode == 0x4c and filler > 255 + 2:
                continue
            for where in ('sig', 'spk'):
                out.append(dict(h='pushdata', p=dict(opcode=opcode, filler=filler, where=where, flags=['P2SH'] if filler % 2 else [])))
        for have in range(0, {0x4c: 1, 0x4d: 2, 0x4e: 4}[opcode]):
            out.append(dict(h='trunc_header', p=dict(opcode=opcode, have=have, flags=[])))
    for nred in (0, 1, 2):
        for fs in [f for f in (FS if tier != 'quick' else quick_fs + [('P2SH',)]) if 'P2SH' in f]:
            out.append(dict(h='p2sh_garbage', p=dict(nred=nred, flags=list(fs), mutable=bool(nred % 2)), max_seconds=1500))
    for op in (0xac, 0xad):
        for sl in (0, 1, 9):
            for nin, idx in ((1, 0), (1, 1), (2, 1), (2, 3)):
                out.append(dict(h='sigops', p=dict(shape=dict(kind='checksig', op=op, siglen=sl), nin=nin, idx=idx, mutable=bool(sl % 2))))
    # several outputs and an input index >= 1: the SIGHASH_SINGLE / NONE pruning paths of the signature hash (hash type = last, symbolic, signature byte)
    for mutable in (True, False):
        out.append(dict(h='sigops', p=dict(shape=dict(kind='checksig', op=0xac, siglen=9, nout=3), nin=2, idx=1, mutable=mutable)))
        out.append(dict(h='sigops', p=dict(shape=dict(kind='checksig', op=0xad, siglen=2, nout=2), nin=3, idx=2, mutable=mutable)))
        out.append(dict(h='sigops', p=dict(shape=dict(kind='multisig', op=0xae, siglen=9, nout=3), nin=2, idx=1, mutable=mutable)))
    for op in (0xae, 0xaf):
        for nin, idx in ((1, 0), (2, 2)):
            out.append(dict(h='sigops', p=dict(shape=dict(kind='multisig', op=op, siglen=9), nin=nin, idx=idx, mutable=False)))
    return out
