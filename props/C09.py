"""C09 - value semantics: immutables never change, mutables never serve stale identity (bounded histories)."""
from refs import ref_wire as W
from props import common as K

ID = 'C09'
FUNCTIONS = ['serialize.ImmutableSerializable.__setattr__/__delattr__/GetHash/__hash__', 'core.__make_mutable', 'core.*.from_outpoint/from_txin/from_txout/from_tx',
             'core.CTransaction.__init__ (freezing)', 'core.CMutableTransaction.__init__', 'core.CTransaction.GetTxid', 'script.RawSignatureHash',
             'scripteval.VerifyScript', 'serialize.Serializable.__eq__/__hash__']
ASSUMPTIONS = ['SHA-256 uninterpreted (identifiers compared through pre-images)', 'ctx.hash() compared through its argument (hash tokens)']
STUBS = ['hashlib (UF)', 'struct', 'io.BytesIO']
OUTSIDE = ['histories longer than 3 (quick) / 4 (thorough) operations', 'in-place edits of a witness list shared between copies (the property excludes them)',
           'transactions with more than 3 inputs / outputs']
EXPECTED_LABELS = ['history: live mutable reflects current fields', 'history: snapshots unchanged', 'history: copies independent',
                   'immutable: setattr raises AttributeError', 'immutable: delattr raises AttributeError', 'immutable: cached identifier == recomputed']
NOPS = 16


def bounds(tier):
    return dict(history_length='all of length 2 + all of length 3 starting with snapshot/copy (quick); all of length 3 + length 4 starting with snapshot/copy (thorough)', alphabet='%d operations, selector and operands symbolic' % NOPS,
                start='mutable transaction with 2 inputs, 1 output, symbolic fields')


def _ghost_copy(g):
    return dict(nVersion=g['nVersion'], nLockTime=g['nLockTime'], vin=[dict(i) for i in g['vin']], vout=[dict(o) for o in g['vout']],
                wit=None if g['wit'] is None else [list(st) for st in g['wit']])


def _check_obj(ctx, obj, g, label):
    full = W.tx(ctx, g)
    ser = obj.serialize()
    if not ctx.check(len(ser) == len(full), label, detail='serialised length'):
        return
    ctx.check(ctx.and_(ser == full, obj.GetTxid() == ctx.dsha256(W.tx(ctx, g, with_witness=False)), obj.GetHash() == ctx.dsha256(full),
                       ctx.hash(obj) == ctx.hash(K.build_tx(ctx, g, False)), obj == K.build_tx(ctx, g, False)), label)


def h_history(ctx, n, first=None, second=None):
    C = ctx.core
    S = ctx.script
    SE = ctx.scripteval
    g = K.mk_tx_fields(ctx, dict(sig=[1, 0], spk=[1], wit=None), pre='t0')
    m = K.build_tx(ctx, g, True)
    snaps = []      # (immutable object, ghost at snapshot time)
    copies = []     # (mutable copy, its ghost)
    for step in range(n):
        if step == 0 and first is not None:
            op = first
        elif step == 1 and second is not None:
            op = second
        else:
            op = ctx.choice('op%d' % step, NOPS)
        pre = 's%d_' % step
        if op == 0:
            g['nLockTime'] = ctx.int(pre + 'lock', 0, 0xffffffff)
            m.nLockTime = g['nLockTime']
        elif op == 1:
            g['nVersion'] = ctx.int(pre + 'ver', -(1 << 31), (1 << 31) - 1)
            m.nVersion = g['nVersion']
        elif op == 2:
            g['vin'][0]['nSequence'] = ctx.int(pre + 'seq', 0, 0xffffffff)
            m.vin[0].nSequence = g['vin'][0]['nSequence']
        elif op == 3:
            g['vin'][-1]['n'] = ctx.int(pre + 'n', 0, 0xffffffff)
            g['vin'][-1]['hash'] = ctx.bytes(pre + 'hash', 32)
            m.vin[-1].prevout.n = g['vin'][-1]['n']
            m.vin[-1].prevout.hash = g['vin'][-1]['hash']
        elif op == 4:
            g['vin'][0]['scriptSig'] = ctx.bytes(pre + 'sig', 1)
            m.vin[0].scriptSig = S.CScript(g['vin'][0]['scriptSig'])
        elif op == 5:
            if g['vout']:
                g['vout'][0]['nValue'] = ctx.int(pre + 'val', -(1 << 63), (1 << 63) - 1)
                m.vout[0].nValue = g['vout'][0]['nValue']
        elif op == 6:
            if g['vout']:
                g['vout'][-1]['scriptPubKey'] = ctx.bytes(pre + 'spk', 2)
                m.vout[-1].scriptPubKey = S.CScript(g['vout'][-1]['scriptPubKey'])
        elif op == 7:
            if len(g['vin']) < 3:
                i = dict(hash=ctx.bytes(pre + 'ih', 32), n=ctx.int(pre + 'in', 0, 0xffffffff), scriptSig=ctx.B(b''), nSequence=ctx.int(pre + 'is', 0, 0xffffffff))
                g['vin'].append(i)
                m.vin.append(C.CMutableTxIn(C.CMutableOutPoint(i['hash'], i['n']), S.CScript(), i['nSequence']))
                if g['wit'] is not None:
                    g['wit'] = None
                    m.wit = C.CTxWitness()
        elif op == 8:
            if len(g['vout']) < 3:
                o = dict(nValue=ctx.int(pre + 'ov', 0, 1 << 50), scriptPubKey=ctx.bytes(pre + 'os', 1))
                g['vout'].append(o)
                m.vout.append(C.CMutableTxOut(o['nValue'], S.CScript(o['scriptPubKey'])))
        elif op == 9:
            if len(g['vin']) > 1:
                g['vin'].pop()
                m.vin.pop()
                if g['wit'] is not None:
                    g['wit'] = None
                    m.wit = C.CTxWitness()
            elif g['vout']:
                o = dict(nValue=ctx.int(pre + 'rv', 0, 1000), scriptPubKey=ctx.B(b''))
                g['vout'][0] = o
                m.vout[0] = C.CMutableTxOut(o['nValue'], S.CScript())
        elif op == 10:
            item = ctx.bytes(pre + 'wit', 1)
            g['wit'] = [[item]] + [[] for _ in range(len(g['vin']) - 1)]
            m.wit = C.CTxWitness(tuple(C.CTxInWitness(S.CScriptWitness(tuple(st))) for st in g['wit']))
        elif op == 11:
            snaps.append((C.CTransaction.from_tx(m), _ghost_copy(g)))
        elif op == 12:
            copies.append([C.CMutableTransaction.from_tx(m), _ghost_copy(g)])
        elif op == 13:
            # edit a copy (or, when there is none, compute identifiers on the live object so that any cache is populated)
            if copies:
                c, cg = copies[-1]
                cg['vin'][0]['nSequence'] = ctx.int(pre + 'cseq', 0, 0xffffffff)
                c.vin[0].nSequence = cg['vin'][0]['nSequence']
                if cg['vout']:
                    cg['vout'][0]['nValue'] = ctx.int(pre + 'cval', 0, 1 << 40)
                    c.vout[0].nValue = cg['vout'][0]['nValue']
            else:
                m.GetTxid(), m.GetHash(), ctx.hash(m), m == m
        elif op == 14:
            ht = ctx.int(pre + 'ht', 0, 255)
            S.RawSignatureHash(S.CScript(ctx.B(b'\x51\xab\x52')), m, 0, ht)
            for sn, sg in snaps[-1:]:
                S.RawSignatureHash(S.CScript(ctx.B(b'\x51')), sn, 0, ht)
        elif op == 15:
            try:
                SE.VerifyScript(S.CScript(ctx.B(b'\x51')), S.CScript(ctx.B(b'\x51\xac')), m, 0)
            except C.ValidationError:
                pass
        # after every step: everything alive equals its ghost
        _check_obj(ctx, m, g, 'history: live mutable reflects current fields')
        for sn, sg in snaps:
            _check_obj(ctx, sn, sg, 'history: snapshots unchanged')
        for c, cg in copies:
            _check_obj(ctx, c, cg, 'history: copies independent')


def _try_set(ctx, obj, name, value):
    try:
        setattr(obj, name, value)
        ctx.fail('immutable: setattr raises AttributeError', '%s.%s assigned' % (type(obj).__name__, name))
    except AttributeError:
        ctx.check(True, 'immutable: setattr raises AttributeError')
    try:
        delattr(obj, name)
        ctx.fail('immutable: delattr raises AttributeError', '%s.%s deleted' % (type(obj).__name__, name))
    except AttributeError:
        ctx.check(True, 'immutable: delattr raises AttributeError')


def h_immutable(ctx):
    C = ctx.core
    S = ctx.script
    f = K.mk_tx_fields(ctx, dict(sig=[1], spk=[1], wit=[[1]]))
    tx = K.build_tx(ctx, f, False)
    before = tx.serialize()
    h0 = tx.GetHash()
    hf = K.mk_header_fields(ctx)
    blk = C.CBlock(hf['nVersion'], hf['hashPrevBlock'], ctx.B(bytes(32)), hf['nTime'], hf['nBits'], hf['nNonce'], [tx])
    hdr = C.CBlockHeader(hf['nVersion'], hf['hashPrevBlock'], hf['hashMerkleRoot'], hf['nTime'], hf['nBits'], hf['nNonce'])
    bser = blk.serialize()
    val = ctx.int('newval', 0, 0xffffffff)
    objs = [(tx, ['nVersion', 'vin', 'vout', 'nLockTime', 'wit', '_cached_GetHash', '_cached__hash__', 'anything']),
            (tx.vin[0], ['prevout', 'scriptSig', 'nSequence', '_cached_GetHash']),
            (tx.vin[0].prevout, ['hash', 'n', '_cached__hash__']),
            (tx.vout[0], ['nValue', 'scriptPubKey']),
            (tx.wit, ['vtxinwit']), (tx.wit.vtxinwit[0], ['scriptWitness']), (tx.wit.vtxinwit[0].scriptWitness, ['stack']),
            (hdr, ['nVersion', 'hashPrevBlock', 'hashMerkleRoot', 'nTime', 'nBits', 'nNonce']),
            (blk, ['nVersion', 'hashMerkleRoot', 'vtx', 'vMerkleTree', 'vWitnessMerkleTree', 'nTime'])]
    for obj, names in objs:
        for nm in names:
            _try_set(ctx, obj, nm, val)
    ctx.check(ctx.and_(tx.serialize() == before, blk.serialize() == bser), 'immutable: serialisation unchanged after the attempts')
    ctx.check(ctx.and_(tx.GetHash() == h0, tx.GetHash() == ctx.dsha256(W.tx(ctx, f)), tx.vin[0].GetHash() == ctx.dsha256(W.txin(ctx, f['vin'][0])),
                       tx.vout[0].GetHash() == ctx.dsha256(W.txout(ctx, f['vout'][0])), hdr.GetHash() == ctx.dsha256(W.header(ctx, hf))),
              'immutable: cached identifier == recomputed')
    # tuples, not lists: the containers themselves cannot be edited
    ctx.check(isinstance(tx.vin, tuple) and isinstance(tx.vout, tuple) and isinstance(blk.vtx, tuple), 'immutable: containers are tuples')


def h_freeze(ctx):
    """an immutable transaction built from mutable parts owns immutable copies: later edits of the parts do not reach it"""
    C = ctx.core
    S = ctx.script
    f = K.mk_tx_fields(ctx, dict(sig=[1, 0], spk=[1, 2], wit=None))
    m = K.build_tx(ctx, f, True)
    im = C.CTransaction(m.vin, m.vout, m.nLockTime, m.nVersion)
    im2 = C.CTransaction.from_tx(m)
    want = W.tx(ctx, f)
    m.vin[0].nSequence = ctx.int('e_seq', 0, 0xffffffff)
    m.vin[1].prevout.n = ctx.int('e_n', 0, 0xffffffff)
    m.vin[1].prevout.hash = ctx.bytes('e_hash', 32)
    m.vout[0].nValue = ctx.int('e_val', 0, 1 << 40)
    m.vout[1].scriptPubKey = S.CScript(ctx.bytes('e_spk', 1))
    m.vin.append(C.CMutableTxIn())
    m.vout.pop()
    ctx.check(ctx.and_(im.serialize() == want, im2.serialize() == want), 'history: snapshots unchanged')
    ctx.check(ctx.and_(im.GetTxid() == ctx.dsha256(want), im2.GetHash() == ctx.dsha256(want)), 'history: snapshots unchanged')
    ctx.check(C.CTransaction.from_tx(im) is im, 'from_tx of an immutable returns the same object')
    # and the other direction: a mutable copy of an immutable is deep
    c = C.CMutableTransaction.from_tx(im)
    c.vin[0].prevout.n = ctx.int('c_n', 0, 0xffffffff)
    c.vout[0].nValue = ctx.int('c_val', 0, 1000)
    c.vin[0].scriptSig = S.CScript(ctx.bytes('c_sig', 2))
    ctx.check(im.serialize() == want, 'history: copies independent')


HARNESSES = {'history': h_history, 'immutable': h_immutable, 'freeze': h_freeze}


def instances(tier):
    out = [dict(h='immutable'), dict(h='freeze')]
    if tier == 'quick':
        for first in range(NOPS):
            out.append(dict(h='history', p=dict(n=2, first=first), max_seconds=3000, witness_every=7))
        # length 3 when the first operation takes a snapshot / a copy (the aliasing-sensitive histories), split over the second op
        for first in (11, 12):
            for second in range(NOPS):
                out.append(dict(h='history', p=dict(n=3, first=first, second=second), max_seconds=3000, witness_every=7))
    else:
        for first in range(NOPS):
            for second in range(NOPS):
                out.append(dict(h='history', p=dict(n=3, first=first, second=second), max_seconds=3000, witness_every=7))
        for first in (11, 12):
            for second in range(NOPS):
                out.append(dict(h='history', p=dict(n=4, first=first, second=second), max_seconds=6000, witness_every=7))
    return out
