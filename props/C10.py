"""C10 - Base58 / Base58Check are exact inverses and reject exactly the invalid strings."""
from refs import ref_base58 as RB

ID = 'C10'
FUNCTIONS = ['base58.encode', 'base58.decode', 'base58.CBase58Data.__new__', 'base58.CBase58Data.from_bytes',
             'base58.CBase58Data.__str__', 'base58.CBase58Data.to_bytes']
ASSUMPTIONS = ['engine theory lemma: two non-negative integers that the solver proves equal have the same digits in a given base '
               '(uniqueness of positional representation) - used to avoid re-deriving digit equality from big-coefficient linear arithmetic',
               'binascii stub exact (hexlify/unhexlify with digit provenance)',
               'double-SHA256 uninterpreted, except pre-images with <= 12 symbolic bits, which are expanded exactly with the real hash',
               'Base58Check harnesses "check"/"text" are compositional: base58.decode/encode are replaced by the byte string they denote, '
               'which is justified by the inverse-bijection harnesses enc/dec over the same lengths']
STUBS = ['binascii', 'hashlib (UF + exact small-domain tables)']
OUTSIDE = ['byte strings longer than 40 bytes', 'base58 strings longer than 12 characters for the decode-first direction',
           'corruptions of Base58Check text are judged at the byte level of the decoded string (compositional step)']
EXPECTED_LABELS = ['enc: decode(encode(b)) == b', 'enc: digits == reference big-integer definition', 'dec: encode(decode(s)) == s',
                   'dec: invalid character raises InvalidBase58Error', 'check: accepted iff len>=5 and checksum matches',
                   'text: str(from_bytes(v,p)) parses back to (v,p)']


def bounds(tier):
    return dict(encode_first='all byte strings of every length 0..%d (every leading-zero count)' % (24 if tier == 'quick' else 40),
                decode_first='all strings over the alphabet of length 0..%d; one arbitrary code point at any position' % (8 if tier == 'quick' else 12),
                base58check='decoded strings of every length 0..40 with checksum = H(rest)[:4] + symbolic delta (mod 256); all 4-byte strings exactly',
                versions='0..255 symbolic; payload length 0..35')


def h_enc(ctx, n, zeros):
    """n-byte strings with exactly `zeros` leading zero bytes (all other bytes symbolic, first non-zero one != 0)"""
    B = ctx.mod('bitcoin.base58')
    if n - zeros > 0:
        rest = ctx.bytes_of([ctx.int('b0', 1, 255, mode='lia')]) + ctx.bytes('b', n - zeros - 1, mode='lia')
    else:
        rest = ctx.B(b'')
    b = ctx.B(bytes(zeros)) + rest
    s = B.encode(b)
    # reference: '1' * zeros + digits of the big integer
    num = RB.bytes_to_int(rest)
    ctx.check(ctx.and_(*[s[i] == '1' for i in range(zeros)]) if zeros else True, 'enc: leading zero bytes become leading 1s')
    digits = s[zeros:]
    val = 0
    ok = True
    for ch in digits:
        idx = ctx.str_index(RB.ALPHABET, ch)
        ok = ctx.and_(ok, idx >= 0)
        val = val * 58 + idx
    ctx.check(ok, 'enc: only alphabet characters')
    ctx.check(val == num, 'enc: digits == reference big-integer definition')
    if len(digits) > 0:
        ctx.check(ctx.not_(digits[0] == '1'), 'enc: no superfluous leading digit')
    else:
        ctx.check(num == 0, 'enc: empty digit string only for zero')
    back = B.decode(s)
    if ctx.check(len(back) == n, 'enc: decode(encode(b)) length'):
        ctx.check(back == b, 'enc: decode(encode(b)) == b')


def _alpha_str(ctx, name, n):
    """string of n symbolic alphabet characters (digit values symbolic 0..57)"""
    ds = [ctx.int('%s_d%d' % (name, i), 0, 57, mode='lia') for i in range(n)]
    return ds, ctx.str_from_table(RB.ALPHABET, ds)


def h_dec(ctx, n, ones):
    B = ctx.mod('bitcoin.base58')
    if n - ones > 0:
        d0 = ctx.int('s_first', 1, 57, mode='lia')
        ds, tail = _alpha_str(ctx, 's', n - ones - 1)
        ds = [d0] + ds
        tail = ctx.str_concat(ctx.str_from_table(RB.ALPHABET, [d0]), tail)
    else:
        ds, tail = [], ''
    s = ctx.str_concat('1' * ones, tail)
    num = 0
    for d in ds:
        num = num * 58 + d
    ctx.register_digits(num, 58, ds[::-1])
    b = B.decode(s)
    # reference: ones zero bytes followed by the minimal big-endian bytes of num
    ctx.check(RB.bytes_to_int(b) == num, 'dec: value == reference big-integer definition')
    nz = ones
    ctx.check(ctx.and_(*[b[i] == 0 for i in range(min(nz, len(b)))]) and len(b) >= nz, 'dec: leading 1s become leading zero bytes')
    if len(b) > nz:
        ctx.check(b[nz] != 0, 'dec: no superfluous zero byte')
    else:
        ctx.check(num == 0, 'dec: no payload bytes only for zero')
    again = B.encode(b)
    if ctx.check(len(again) == n, 'dec: encode(decode(s)) length'):
        ctx.check(again == s, 'dec: encode(decode(s)) == s')


def h_badchar(ctx, n, pos):
    B = ctx.mod('bitcoin.base58')
    ds, good = _alpha_str(ctx, 's', n)
    c = ctx.text('c', 1)
    s = ctx.str_concat(good[:pos], c, good[pos + 1:])
    inalpha = ctx.str_index(RB.ALPHABET, c) >= 0
    try:
        B.decode(s)
        ctx.check(inalpha, 'dec: invalid character raises InvalidBase58Error')
        return
    except B.InvalidBase58Error:
        ctx.check(ctx.not_(inalpha), 'dec: InvalidBase58Error only for characters outside the alphabet')
    # history: the refusal is repeatable - the same text, and another text with the same character, are refused again
    for what, t in (('same text again', s), ('same character in another text', ctx.str_concat('2', c))):
        try:
            B.decode(t)
            ctx.fail('dec: invalid character raises InvalidBase58Error', detail=what + ' after a first refusal')
        except B.InvalidBase58Error:
            pass
    # ... and a valid text still decodes to its value afterwards
    ctx.check(B.decode('2g') == ctx.B(b'a'), 'dec: value == reference big-integer definition', detail='valid text after a refusal')


TRICKY = ['a3gV\n', '\na3gV', 'a3gV ', ' a3gV', 'a3gV\r\n', 'a3g\x00V', 'a3gV\x00', 'a3gO', 'a3g0', 'Ia3g', 'a3lg', 'a3gV\u0661', 'a3gV\uff11',
          'a3g-V', '+a3gV', 'a3g_V', 'a3gV\x0b', 'a3gV\x0c', 'a3gV\t', '\u00e9', 'a3gV\n\n', '1\n', '\n', 'a3gV\u2028', 'a3gV\x85',
          '3Qa2ZsvHmfJPAFrB1nqtwUBszh3yryipM\n', ' 1HHCo7ZzdzWXNBzZzxZvjXX6Zu7izDSbZ2']


def h_badfixed(ctx, k):
    """fixed texts with one character outside the alphabet in a position where text-processing shortcuts go wrong (line ends,
    blanks, look-alike digits); concrete runs of the shadow library - a solver does not steer regular-expression or Unicode tables"""
    B = ctx.mod('bitcoin.base58')
    s = TRICKY[k]
    for fn, what in ((B.decode, 'decode'), (B.CBase58Data, 'CBase58Data')):
        try:
            fn(s)
            ctx.fail('dec: invalid character raises InvalidBase58Error', detail='%s(%r) accepted' % (what, s))
        except B.InvalidBase58Error:
            ctx.check(True, 'dec: invalid character raises InvalidBase58Error')


class _Patched(object):
    """compositional step for Base58Check: decode/encode replaced by the byte string the text denotes"""

    def __init__(self, ctx, decode=None, encode=None):
        self.B = ctx.mod('bitcoin.base58')
        self.on = ctx.symbolic
        self.decode, self.encode = decode, encode

    def __enter__(self):
        if self.on:
            self.o = (self.B.decode, self.B.encode)
            if self.decode:
                self.B.decode = self.decode
            if self.encode:
                self.B.encode = self.encode
        return self

    def __exit__(self, *a):
        if self.on:
            self.B.decode, self.B.encode = self.o
        return False


def h_check(ctx, n):
    """decoded string k of n bytes: k = rest + (H(rest)[:4] + delta mod 256)"""
    B = ctx.mod('bitcoin.base58')
    if n >= 4:
        rest = ctx.bytes('rest', n - 4)
        delta = ctx.bytes('delta', 4)
        h = ctx.dsha256(rest)
        k = rest + ctx.bytes_of([(h[i] + delta[i]) % 256 for i in range(4)])
        valid = (n >= 5) and ctx.and_(*[delta[i] == 0 for i in range(4)])
    else:
        k = ctx.bytes('k', n)
        valid = False
    text = 'TEXT' if ctx.symbolic else B.encode(k)
    with _Patched(ctx, decode=lambda s: k):
        try:
            obj = B.CBase58Data(text)
            ok = True
        except B.Base58ChecksumError:
            ok = False
    if ok:
        ctx.check(valid, 'check: accepted iff len>=5 and checksum matches')
        if n >= 5:
            ctx.check(ctx.and_(obj.nVersion == k[0], len(obj) == n - 5, obj.to_bytes() == k[1:n - 4]),
                      'check: version byte and payload returned')
    else:
        ctx.check(ctx.not_(valid), 'check: rejected only when the checksum rule fails')


def h_check4(ctx):
    """every 4-byte decoded string, decided exactly (the hash pre-image has 8 symbolic bits)"""
    B = ctx.mod('bitcoin.base58')
    k = ctx.bytes('k', 4)
    text = 'TEXT' if ctx.symbolic else B.encode(k)
    with _Patched(ctx, decode=lambda s: k):
        try:
            B.CBase58Data(text)
            ctx.fail('check: accepted iff len>=5 and checksum matches', '4-byte decoded string accepted')
        except B.Base58ChecksumError:
            ctx.check(True, 'check: rejected only when the checksum rule fails')


def h_text(ctx, plen):
    B = ctx.mod('bitcoin.base58')
    v = ctx.int('v', 0, 255)
    p = ctx.bytes('p', plen)
    obj = B.CBase58Data.from_bytes(p, v)
    cap = {}

    def enc(b):
        cap['b'] = b
        return 'TEXT'
    with _Patched(ctx, encode=enc):
        s = ctx.to_str(obj)
    if ctx.symbolic:
        k = cap['b']
    else:
        k = B.decode(s)
    ctx.check(k == ctx.bytes_of([v]) + p + ctx.dsha256(ctx.bytes_of([v]) + p)[:4], 'text: str() encodes version+payload+checksum')
    with _Patched(ctx, decode=lambda t: k):
        back = B.CBase58Data(s)
    ctx.check(ctx.and_(back.nVersion == v, len(back) == plen, back.to_bytes() == p), 'text: str(from_bytes(v,p)) parses back to (v,p)')
    # a second object with the same payload and another version byte must not see the first one's text
    v2 = ctx.int('v2', 0, 255)
    obj2 = B.CBase58Data.from_bytes(p, v2)
    cap2 = {}

    def enc2(b):
        cap2['b'] = b
        return 'TEXT2'
    with _Patched(ctx, encode=enc2):
        s2 = ctx.to_str(obj2)
    k2 = cap2.get('b') if ctx.symbolic else B.decode(s2)
    if k2 is None:
        # the text was produced without encoding anything (a memoised result): only legitimate for the same version
        ctx.check(v2 == v, 'text: str() of a second object with the same payload encodes its own version')
    else:
        ctx.check(k2 == ctx.bytes_of([v2]) + p + ctx.dsha256(ctx.bytes_of([v2]) + p)[:4],
                  'text: str() of a second object with the same payload encodes its own version')
    for bad in (-1, 256):
        try:
            B.CBase58Data.from_bytes(p, bad)
            ctx.fail('text: version outside 0..255 refused')
        except ValueError:
            pass


HARNESSES = {'badfixed': h_badfixed, 'enc': h_enc, 'dec': h_dec, 'badchar': h_badchar, 'check': h_check, 'check4': h_check4, 'text': h_text}


def instances(tier):
    out = []
    nmax = 24 if tier == 'quick' else 40
    for n in range(0, nmax + 1):
        zs = sorted(set([0, 1, n // 2, n - 1, n]) & set(range(0, n + 1))) if tier == 'quick' else range(0, n + 1)
        for z in zs:
            out.append(dict(h='enc', p=dict(n=n, zeros=z), max_seconds=900))
    smax = 8 if tier == 'quick' else 12
    for n in range(0, smax + 1):
        for o in range(0, n + 1):
            out.append(dict(h='dec', p=dict(n=n, ones=o)))
    for n, pos in ((1, 0), (3, 0), (3, 1), (3, 2), (6, 3)):
        out.append(dict(h='badchar', p=dict(n=n, pos=pos)))
    for k in range(len(TRICKY)):
        out.append(dict(h='badfixed', p=dict(k=k)))
    for n in range(0, 41):
        out.append(dict(h='check', p=dict(n=n)))
    out.append(dict(h='check4'))
    for pl in (0, 1, 20, 32, 33, 35):
        out.append(dict(h='text', p=dict(plen=pl)))
    return out
