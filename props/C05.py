"""C05 - signed inputs verify; exactly what the hash type commits to is protected (modulo an idealised ECDSA)."""
from refs import ref_sighash as SH
from refs import ref_script as RS
from props import common as K

ID = 'C05'
FUNCTIONS = ['script.SignatureHash / RawSignatureHash', 'scripteval.VerifyScript / EvalScript / _CheckSig / _CheckMultiSig', 'script.FindAndDelete',
             'wallet.CKey.sign -> CECKey.sign (concrete twin only)', 'core.CMutableTransaction']
ASSUMPTIONS = ['IDEALISED ECDSA in the symbolic run: a signature verifies for exactly the (public key, digest) it was registered for and for nothing else '
               '(table predicate shared by the CECKey stub and the reference); that OpenSSL satisfies this contract is NOT decided here (C13, not applicable); '
               'the concrete twin signs with the real CKey and verifies with the real OpenSSL',
               'double-SHA256 collision-free among the applications of a path; HASH160 uninterpreted']
STUBS = ['bitcoin.core.key.CECKey (idealised table)', 'hashlib (UF)', 'struct']
OUTSIDE = ['OpenSSL / secp256k1 behaviour', 'more than 3 inputs / outputs', 'edits outside the catalogue', 'SIGHASH_SINGLE with no matching output combined with edits']
EXPECTED_LABELS = ['signed input is accepted', 'committed edit invalidates the signature', 'uncommitted edit keeps the signature valid',
                   'signature from another key is rejected']
TEMPLATES = ['p2pk', 'p2pkh', 'ms1of2', 'ms2of3', 'p2sh_p2pk', 'p2sh_ms2of3']
HTCLASSES = ['all', 'none', 'single', 'all_acp', 'none_acp', 'single_acp', 'undef']
EDITS = ['version', 'locktime', 'own_prevout_n', 'own_prevout_hash', 'own_seq', 'other_prevout', 'other_seq', 'other_scriptsig',
         'out_value_before', 'out_value_same', 'out_value_after', 'out_script_same', 'append_output', 'remove_last_output', 'append_input',
         'remove_last_input', 'swap_other_inputs', 'witness']


def bounds(tier):
    return dict(tx='3 inputs, 3 outputs, all fields symbolic', position='0, 1 (quick) / 0, 1, 2 (thorough)', templates=TEMPLATES,
                hash_types='symbolic byte within each of %s' % HTCLASSES, edits=EDITS)


def _ht(ctx, cls):
    ht = ctx.int('hashtype', 0, 255)
    base = ht & 0x1f
    acp = (ht & 0x80) != 0
    want_acp = cls.endswith('_acp')
    ctx.assume(acp if want_acp else ctx.not_(acp))
    b = cls.split('_')[0]
    if b == 'none':
        ctx.assume(base == 2)
    elif b == 'single':
        ctx.assume(base == 3)
    elif b == 'all':
        ctx.assume(ht & 0x7f == 1)
    else:
        ctx.assume(ctx.and_(base != 2, base != 3, ht & 0x7f != 1))      # undefined type bytes behave like ALL
    return ht


def committed(cls, edit, pos, nin, nout):
    """reference commitment table: does this edit change what a signature of class cls at input pos signs?"""
    base = cls.split('_')[0]
    if base == 'undef':
        base = 'all'
    acp = cls.endswith('_acp')
    if edit in ('version', 'locktime', 'own_prevout_n', 'own_prevout_hash', 'own_seq'):
        return True
    if edit in ('other_scriptsig', 'witness'):
        return False
    if edit == 'other_prevout':
        return not acp
    if edit == 'other_seq':
        return (not acp) and base == 'all'
    if edit in ('append_input', 'remove_last_input', 'swap_other_inputs'):
        return not acp
    if edit in ('out_value_before', 'out_value_after'):
        return base == 'all'
    if edit in ('out_value_same', 'out_script_same'):
        return base in ('all', 'single')
    if edit in ('append_output', 'remove_last_output'):
        return base == 'all'
    raise AssertionError(edit)


def _keys(ctx, n):
    """-> list of (pubkey bytes, signer) ; signer(digest) -> DER signature bytes (without the hash type)"""
    out = []
    if ctx.symbolic:
        table = []
        ctx.set_state('ecdsa_table', table)
        ctx.set_state('collision_free', True)
        for k in range(n):
            pub = ctx.bytes('pk%d' % k, 33)
            cnt = [0]

            def signer(d, pub=pub, k=k, cnt=cnt):
                sig = ctx.bytes('der%d_%d' % (k, cnt[0]), 8)
                cnt[0] += 1
                for (_p, _d, s0) in table:
                    ctx.assume(ctx.not_(sig == s0))       # distinct signing events produce distinct signatures
                table.append((pub, d, sig))
                return sig
            out.append((pub, signer))
        for a in range(n):
            for b in range(a + 1, n):
                ctx.assume(ctx.not_(out[a][0] == out[b][0]))
    else:
        W = ctx.mod('bitcoin.wallet')
        for k in range(n):
            key = W.CKey(ctx.sha256(ctx.bytes('pk%d' % k, 33)), True)
            out.append((bytes(key.pub), (lambda d, key=key: key.sign(bytes(d)))))
    return out


def _apply(ctx, f, edit, pos):
    """returns the edited field dict (new values symbolic, assumed different from the old ones)"""
    g = dict(f)
    g['vin'] = [dict(i) for i in f['vin']]
    g['vout'] = [dict(o) for o in f['vout']]
    nin, nout = len(f['vin']), len(f['vout'])
    other = (pos + 1) % nin
    ne = lambda name, old, lo, hi: _newint(ctx, name, old, lo, hi)
    if edit == 'version':
        g['nVersion'] = ne('e_ver', f['nVersion'], -(1 << 31), (1 << 31) - 1)
    elif edit == 'locktime':
        g['nLockTime'] = ne('e_lock', f['nLockTime'], 0, 0xffffffff)
    elif edit == 'own_prevout_n':
        g['vin'][pos]['n'] = ne('e_n', f['vin'][pos]['n'], 0, 0xffffffff)
    elif edit == 'own_prevout_hash':
        g['vin'][pos]['hash'] = _newbytes(ctx, 'e_hash', f['vin'][pos]['hash'])
    elif edit == 'own_seq':
        g['vin'][pos]['nSequence'] = ne('e_seq', f['vin'][pos]['nSequence'], 0, 0xffffffff)
    elif edit == 'other_prevout':
        g['vin'][other]['n'] = ne('e_on', f['vin'][other]['n'], 0, 0xffffffff)
    elif edit == 'other_seq':
        g['vin'][other]['nSequence'] = ne('e_oseq', f['vin'][other]['nSequence'], 0, 0xffffffff)
    elif edit == 'other_scriptsig':
        g['vin'][other]['scriptSig'] = ctx.bytes('e_osig', 2)
    elif edit in ('out_value_before', 'out_value_same', 'out_value_after'):
        j = {'out_value_before': pos - 1, 'out_value_same': pos, 'out_value_after': pos + 1}[edit]
        g['vout'][j]['nValue'] = ne('e_val', f['vout'][j]['nValue'], -(1 << 63), (1 << 63) - 1)
    elif edit == 'out_script_same':
        g['vout'][pos]['scriptPubKey'] = _newbytes(ctx, 'e_spk', f['vout'][pos]['scriptPubKey'])
    elif edit == 'append_output':
        g['vout'].append(dict(nValue=ctx.int('e_av', 0, 1 << 40), scriptPubKey=ctx.bytes('e_as', 1)))
    elif edit == 'remove_last_output':
        g['vout'].pop()
    elif edit == 'append_input':
        g['vin'].append(dict(hash=ctx.bytes('e_ih', 32), n=ctx.int('e_in', 0, 0xffffffff), scriptSig=ctx.B(b''), nSequence=ctx.int('e_is', 0, 0xffffffff)))
    elif edit == 'remove_last_input':
        g['vin'].pop()
    elif edit == 'swap_other_inputs':
        a, b = [q for q in range(nin) if q != pos][:2]
        g['vin'][a], g['vin'][b] = g['vin'][b], g['vin'][a]
        # the two swapped inputs spend different outpoints (otherwise the swap is invisible under NONE/SINGLE, which zero the sequences)
        ctx.assume(ctx.not_(ctx.and_(f['vin'][a]['hash'] == f['vin'][b]['hash'], f['vin'][a]['n'] == f['vin'][b]['n'])))
    elif edit == 'witness':
        g['wit'] = [[ctx.bytes('e_w', 1)]] + [[] for _ in range(nin - 1)]
    return g


def _newint(ctx, name, old, lo, hi):
    v = ctx.int(name, lo, hi)
    ctx.assume(v != old)
    return v


def _newbytes(ctx, name, old):
    v = ctx.bytes(name, len(old))
    ctx.assume(ctx.not_(v == old))
    return v


def edit_applicable(edit, pos, nin, nout, cls):
    if edit == 'out_value_before':
        return pos >= 1
    if edit == 'out_value_after':
        return pos + 1 < nout
    if edit in ('out_value_same', 'out_script_same'):
        return pos < nout
    if edit == 'remove_last_output':
        return nout - 1 > pos
    if edit == 'remove_last_input':
        return nin - 1 > pos
    if edit == 'swap_other_inputs':
        return nin >= 3
    return True


def h_signed(ctx, template, pos, cls, edit, nin=3, nout=3):
    S = ctx.script
    SE = ctx.scripteval
    C = ctx.core
    B = ctx.B
    push = lambda d: RS.push_encode(ctx, d)
    f = K.mk_tx_fields(ctx, dict(sig=[0] * nin, spk=[1] * nout, wit=None), pre='tx')
    ht = _ht(ctx, cls)
    nkeys = {'p2pk': 1, 'p2pkh': 1, 'ms1of2': 2, 'ms2of3': 3, 'p2sh_p2pk': 1, 'p2sh_ms2of3': 3}[template]
    keys = _keys(ctx, nkeys + 1)           # the last key is the "other" key
    pubs = [k[0] for k in keys]
    inner = template.replace('p2sh_', '')
    if inner == 'p2pk':
        code = push(pubs[0]) + B(b'\xac')
        signers = [0]
    elif inner == 'p2pkh':
        code = B(b'\x76\xa9') + push(ctx.hash160(pubs[0])) + B(b'\x88\xac')
        signers = [0]
    elif inner == 'ms1of2':
        code = B(b'\x51') + push(pubs[0]) + push(pubs[1]) + B(b'\x52\xae')
        signers = [1]
    else:
        code = B(b'\x52') + push(pubs[0]) + push(pubs[1]) + push(pubs[2]) + B(b'\x53\xae')
        signers = [0, 2]
    p2sh = template.startswith('p2sh_')
    spk = (B(b'\xa9') + push(ctx.hash160(code)) + B(b'\x87')) if p2sh else code
    flags = set([SE.SCRIPT_VERIFY_P2SH])

    def digest(fields):
        r = SH.legacy_preimage(ctx, fields, code, pos, ht)
        return B(SH.ONE) if r[0] == 'one' else ctx.dsha256(r[1])

    def script_sig(sigs):
        s = B(b'')
        if inner.startswith('ms'):
            s = s + B(b'\x00')
        for sg in sigs:
            s = s + push(sg + ctx.bytes_of([ht]))
        if inner == 'p2pkh':
            s = s + push(pubs[0])
        if p2sh:
            s = s + push(code)
        return s

    def accepts(fields, ssig):
        g = dict(fields)
        g['vin'] = [dict(i) for i in fields['vin']]
        g['vin'][pos]['scriptSig'] = ssig
        tx = K.build_tx(ctx, g, True)
        try:
            SE.VerifyScript(S.CScript(ssig), S.CScript(spk), tx, pos, flags=flags)
            return True
        except C.ValidationError:
            return False
    D = digest(f)
    sigs = [keys[k][1](D) for k in signers]
    ssig = script_sig(sigs)
    ctx.check(accepts(f, ssig), 'signed input is accepted')
    # a signature made by another key over the same digest
    wrong = list(sigs)
    wrong[-1] = keys[-1][1](D)
    ctx.check(not accepts(f, script_sig(wrong)), 'signature from another key is rejected')
    if len(signers) >= 2:
        # m-of-n with all signatures from ONE key of the set (two signing events): a key may satisfy only one signature
        for k in (signers[-1], signers[0]):
            dup = [keys[k][1](D) for _ in signers]
            ctx.check(not accepts(f, script_sig(dup)), 'signature from another key is rejected', detail='all signatures by key %d' % k)
    if edit is not None:
        g = _apply(ctx, f, edit, pos)
        ok = accepts(g, ssig)
        if committed(cls, edit, pos, nin, nout):
            ctx.check(not ok, 'committed edit invalidates the signature', detail='%s under %s' % (edit, cls))
        else:
            ctx.check(ok, 'uncommitted edit keeps the signature valid', detail='%s under %s' % (edit, cls))


def h_two_checksigs(ctx, pos, cls):
    """scriptPubKey = <sig1> <P1> CHECKSIGVERIFY <P2> CHECKSIG, scriptSig = <sig2>: each signature signs the script code valid at
    ITS opcode (sig1's own push removed for the first check only)"""
    S = ctx.script
    SE = ctx.scripteval
    C = ctx.core
    B = ctx.B
    push = lambda d: RS.push_encode(ctx, d)
    f = K.mk_tx_fields(ctx, dict(sig=[0] * 2, spk=[1] * 2, wit=None), pre='tx')
    ht = _ht(ctx, cls)
    keys = _keys(ctx, 2)
    base = push(keys[0][0]) + B(b'\xad') + push(keys[1][0]) + B(b'\xac')

    def digest(code):
        r = SH.legacy_preimage(ctx, f, code, pos, ht)
        return B(SH.ONE) if r[0] == 'one' else ctx.dsha256(r[1])
    sig1 = keys[0][1](digest(base)) + ctx.bytes_of([ht])
    spk = push(sig1) + base
    sig2 = keys[1][1](digest(spk)) + ctx.bytes_of([ht])
    ssig = push(sig2)
    g = dict(f)
    g['vin'] = [dict(i) for i in f['vin']]
    g['vin'][pos]['scriptSig'] = ssig
    tx = K.build_tx(ctx, g, False)
    try:
        SE.VerifyScript(S.CScript(ssig), S.CScript(spk), tx, pos, flags=set())
        ok = True
    except C.ValidationError:
        ok = False
    ctx.check(ok, 'signed input is accepted', detail='two signature checks in one script')
    # a second signature made over the script code of the FIRST check must not verify
    bad2 = keys[1][1](digest(base)) + ctx.bytes_of([ht])
    try:
        SE.VerifyScript(S.CScript(push(bad2)), S.CScript(spk), tx, pos, flags=set())
        ok2 = True
    except C.ValidationError:
        ok2 = False
    ctx.check(not ok2, 'committed edit invalidates the signature', detail='signature over the stale script code of the previous check')


def h_shared_tx(ctx, pos2, cls, mutable):
    """history: ONE transaction object, two independently signed inputs (input 0 under ALL, input pos2 under an arbitrary type
    of class cls); verifying one input must not disturb the verdict on the other, in either order"""
    S = ctx.script
    SE = ctx.scripteval
    C = ctx.core
    B = ctx.B
    push = lambda d: RS.push_encode(ctx, d)
    f = K.mk_tx_fields(ctx, dict(sig=[0] * 3, spk=[1] * 3, wit=None), pre='tx')
    ht2 = _ht(ctx, cls)
    keys = _keys(ctx, 2)
    code0 = push(keys[0][0]) + B(b'\xac')
    code2 = push(keys[1][0]) + B(b'\xac')

    def digest(code, pos, ht):
        r = SH.legacy_preimage(ctx, f, code, pos, ht)
        return B(SH.ONE) if r[0] == 'one' else ctx.dsha256(r[1])
    ssig0 = push(keys[0][1](digest(code0, 0, 1)) + ctx.bytes_of([1]))
    ssig2 = push(keys[1][1](digest(code2, pos2, ht2)) + ctx.bytes_of([ht2]))
    g = dict(f)
    g['vin'] = [dict(i) for i in f['vin']]
    g['vin'][0]['scriptSig'] = ssig0
    g['vin'][pos2]['scriptSig'] = ssig2
    tx = K.build_tx(ctx, g, mutable)
    before = tx.serialize()

    def ok(ssig, code, pos):
        try:
            SE.VerifyScript(S.CScript(ssig), S.CScript(code), tx, pos, flags=set())
            return True
        except C.ValidationError:
            return False
    ctx.check(ok(ssig0, code0, 0), 'signed input is accepted', detail='input 0, first')
    ctx.check(ok(ssig2, code2, pos2), 'signed input is accepted', detail='input %d after input 0 on the same object' % pos2)
    ctx.check(ok(ssig0, code0, 0), 'signed input is accepted', detail='input 0 again after input %d was verified' % pos2)
    ctx.check(ok(ssig2, code2, pos2), 'signed input is accepted', detail='input %d again' % pos2)
    ctx.check(tx.serialize() == before, 'signed input is accepted', detail='verification left the transaction unchanged')


def h_single_nomatch(ctx, template, cls):
    """SIGHASH_SINGLE at an input index without a matching output: the historical digest 1 is what gets signed and verified"""
    h_signed(ctx, template, 2, cls, None, nin=3, nout=2)


HARNESSES = {'shared_tx': h_shared_tx, 'two_checksigs': h_two_checksigs, 'signed': h_signed, 'single_nomatch': h_single_nomatch}


def instances(tier):
    out = []
    n = 0
    poss = (0, 1) if tier == 'quick' else (0, 1, 2)
    for ti, t in enumerate(TEMPLATES):
        for ci, cls in enumerate(HTCLASSES):
            for pos in poss:
                for ei, e in enumerate(EDITS):
                    if not edit_applicable(e, pos, 3, 3, cls):
                        continue
                    n += 1
                    if tier == 'quick' and (ti * 7 + ci * 3 + pos + ei) % 6 != 0:
                        continue
                    out.append(dict(h='signed', p=dict(template=t, pos=pos, cls=cls, edit=e), max_seconds=900, keep_witnesses=1))
    for pos in (0, 1):
        for cls in ('all', 'none_acp', 'single'):
            out.append(dict(h='two_checksigs', p=dict(pos=pos, cls=cls)))
    for pos2 in (1, 2):
        for ci, cls in enumerate(HTCLASSES):
            out.append(dict(h='shared_tx', p=dict(pos2=pos2, cls=cls, mutable=bool((ci + pos2) % 3 != 0))))
    for t in ('p2pk', 'ms1of2', 'p2sh_p2pk'):
        for cls in ('single', 'single_acp'):
            out.append(dict(h='single_nomatch', p=dict(template=t, cls=cls)))
    return out
