"""C03 - legacy signature hash equals the consensus algorithm for every hash type."""
from refs import ref_wire as W
from refs import ref_sighash as SH
from props import common as K

ID = 'C03'
FUNCTIONS = ['script.RawSignatureHash', 'script.FindAndDelete', 'script.SignatureHash (SIGVERSION_BASE)', 'script.CScript.raw_iter',
             'core.CMutableTransaction.from_tx', 'core.CMutableTxIn.from_txin', 'core.CMutableTxOut.from_txout',
             'core.CTransaction.stream_serialize']
ASSUMPTIONS = ['SHA-256 uninterpreted (digest equality decided through pre-image equality)',
               'SignatureHash convenience form: documented precondition "subscript is not witness-program shaped" assumed']
STUBS = ['hashlib (UF)', 'struct', 'io.BytesIO']
OUTSIDE = ['subscripts that do not parse', 'negative input indices', 'hash types outside one byte', 'subscripts longer than 5 tokens']
EXPECTED_LABELS = ['raw: digest == H(H(reference pre-image))', 'raw: HASH_ONE + error exactly in the historical cases',
                   'wrapper: ValueError exactly in the historical cases', 'txTo unchanged']


def bounds(tier):
    return dict(n_in='1..3', n_out='0..3', hashtype='one symbolic byte (all 256 values)', inIdx='0..n_in (incl. out of range)',
                subscript='token sequences of <= %d tokens from {OP_CODESEPARATOR, symbolic opcode byte 0x4f..0xff, push of 1..3 symbolic bytes, non-minimal PUSHDATA1/2/4 pushes}'
                          % (3 if tier == 'quick' else 4), witness='present/absent', tx='mutable and immutable', history='two digests (two symbolic hash types, two positions) + repeat of the first on one object')


def mk_tokens(ctx, shape):
    """shape: string over  c (OP_CODESEPARATOR)  o (symbolic opcode > 0x4e)  1/2/3 (push of n symbolic bytes)"""
    toks = []
    for k, ch in enumerate(shape):
        if ch == 'c':
            toks.append(('op', 0xab))
        elif ch == 'o':
            toks.append(('op', ctx.int('op%d' % k, 0x4f, 0xff)))
        elif ch == 'P':      # non-minimal OP_PUSHDATA1 of 2 bytes
            toks.append(('push', ctx.B(bytes([0x4c, 2])), ctx.bytes('pd%d' % k, 2)))
        elif ch == 'Q':      # non-minimal OP_PUSHDATA2 of 1 byte
            toks.append(('push', ctx.B(bytes([0x4d, 1, 0])), ctx.bytes('pd%d' % k, 1)))
        elif ch == 'R':      # OP_PUSHDATA4 of zero bytes
            toks.append(('push', ctx.B(bytes([0x4e, 0, 0, 0, 0])), ctx.B(b'')))
        else:
            n = int(ch)
            toks.append(('push', ctx.B(bytes([n])), ctx.bytes('pd%d' % k, n)))
    return toks


def h_raw(ctx, sig, spk, wit, idx, sub, mutable):
    S = ctx.script
    f = K.mk_tx_fields(ctx, dict(sig=sig, spk=spk, wit=wit))
    tx = K.build_tx(ctx, f, mutable)
    before = tx.serialize()
    toks = mk_tokens(ctx, sub)
    script = S.CScript(SH.tokens_bytes(ctx, toks))
    ht = ctx.int('hashtype', 0, 255)
    (h, err) = S.RawSignatureHash(script, tx, idx, ht)
    ref = SH.legacy_preimage(ctx, f, SH.strip_codeseparators(ctx, toks), idx, ht)
    if ref[0] == 'one':
        ctx.check(ctx.and_(h == ctx.B(SH.ONE), err is not None), 'raw: HASH_ONE + error exactly in the historical cases')
    else:
        ctx.check(err is None, 'raw: HASH_ONE + error exactly in the historical cases')
        ctx.check(h == ctx.dsha256(ref[1]), 'raw: digest == H(H(reference pre-image))')
    ctx.check(tx.serialize() == before, 'txTo unchanged')
    ctx.check(K.tx_fields_equal(ctx, tx, f), 'txTo unchanged')


def h_wrap(ctx, sig, spk, idx, sub, mutable):
    S = ctx.script
    f = K.mk_tx_fields(ctx, dict(sig=sig, spk=spk, wit=None))
    tx = K.build_tx(ctx, f, mutable)
    before = tx.serialize()
    toks = [('op', 0x76)] + mk_tokens(ctx, sub)     # leading OP_DUP: never witness-program shaped
    script = S.CScript(SH.tokens_bytes(ctx, toks))
    ht = ctx.int('hashtype', 0, 255)
    ref = SH.legacy_preimage(ctx, f, SH.strip_codeseparators(ctx, toks), idx, ht)
    try:
        h = S.SignatureHash(script, tx, idx, ht)
        ctx.check(ref[0] == 'pre', 'wrapper: ValueError exactly in the historical cases')
        if ref[0] == 'pre':
            ctx.check(h == ctx.dsha256(ref[1]), 'wrapper: digest == H(H(reference pre-image))')
    except ValueError:
        ctx.check(ref[0] == 'one', 'wrapper: ValueError exactly in the historical cases')
    ctx.check(tx.serialize() == before, 'txTo unchanged')


def h_seq(ctx, nin, nout, idx1, idx2, sub, mutable):
    """history: several digests (arbitrary hash types, two input positions) computed on ONE transaction object;
    each equals the reference of the transaction's fields, whatever was computed before it"""
    S = ctx.script
    f = K.mk_tx_fields(ctx, dict(sig=[1] * nin, spk=[1] * nout, wit=None))
    tx = K.build_tx(ctx, f, mutable)
    before = tx.serialize()
    toks = mk_tokens(ctx, sub)
    script = S.CScript(SH.tokens_bytes(ctx, toks))
    stripped = SH.strip_codeseparators(ctx, toks)
    ht1 = ctx.int('hashtype', 0, 255)
    ht2 = ctx.int('hashtype2', 0, 255)

    def one(idx, ht, what):
        (h, err) = S.RawSignatureHash(script, tx, idx, ht)
        ref = SH.legacy_preimage(ctx, f, stripped, idx, ht)
        if ref[0] == 'one':
            ctx.check(ctx.and_(h == ctx.B(SH.ONE), err is not None), 'raw: HASH_ONE + error exactly in the historical cases', detail=what)
        else:
            ctx.check(err is None, 'raw: HASH_ONE + error exactly in the historical cases', detail=what)
            ctx.check(h == ctx.dsha256(ref[1]), 'raw: digest == H(H(reference pre-image))', detail=what)
    one(idx1, ht1, 'first digest on the object')
    one(idx2, ht2, 'second digest on the same object')
    one(idx1, ht1, 'first digest repeated after the second')
    ctx.check(tx.serialize() == before, 'txTo unchanged')


HARNESSES = {'raw': h_raw, 'wrap': h_wrap, 'seq': h_seq}


def instances(tier):
    out = []
    small = [0, 1, 2]
    subs_q = ['', 'c', 'o', '1', 'co', 'oc', '1c', 'c1', '2o', 'o3', 'coc', 'o1o', '1o1', 'c2c', 'ooo', 'P', 'cQ', 'Rc', 'PoQ']
    subs_t = subs_q + ['cc', '11', '3c', 'c3', 'occo', 'c1c1', '1c2o', 'oooo', '2c2c', 'o2co']
    subs = subs_q if tier == 'quick' else subs_t
    n = 0
    for nin in (1, 2, 3):
        for nout in (0, 1, 2, 3):
            for idx in range(0, nin + 1):
                sig = [small[(i + nout) % 3] for i in range(nin)]
                spk = [small[(j + nin) % 3] for j in range(nout)]
                # rotate subscripts/witness/mutability over the shape grid (quick) or take them all (thorough)
                if tier == 'quick':
                    chosen = [subs[(n * 3 + k) % len(subs)] for k in range(3)]
                else:
                    chosen = subs
                for si, sub in enumerate(chosen):
                    wit = None if (n + si) % 2 == 0 else [[1]] + [[] for _ in range(nin - 1)]
                    out.append(dict(h='raw', p=dict(sig=sig, spk=spk, wit=wit, idx=idx, sub=sub, mutable=bool((n + si) % 3 == 0))))
                out.append(dict(h='wrap', p=dict(sig=sig, spk=spk, idx=idx, sub=subs[n % len(subs)], mutable=bool(n % 2))))
                n += 1
    k = 0
    for nin, nout in ((2, 2), (3, 2), (2, 1)) if tier == 'quick' else ((2, 2), (3, 2), (2, 1), (3, 3), (2, 3)):
        for idx1 in range(nin):
            for idx2 in range(nin):
                out.append(dict(h='seq', p=dict(nin=nin, nout=nout, idx1=idx1, idx2=idx2, sub=('', 'o', '1c')[k % 3], mutable=bool(k % 4 == 3))))
                k += 1
    return out
