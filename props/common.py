"""Shared builders: symbolic transactions / headers / blocks of a given (concrete) shape."""

FILL = 0x6a


def mk_bytes(ctx, name, n, full=6):
    """n-byte string: all symbolic when n <= full, else first two and last two bytes symbolic with
    concrete filler between (content does not influence framing; stated in the bounds)."""
    if n <= full:
        return ctx.bytes(name, n)
    head = ctx.bytes(name + '_h', 2)
    tail = ctx.bytes(name + '_t', 2)
    return head + ctx.B(bytes([FILL]) * (n - 4)) + tail


def _script(ctx, shape, name, n):
    if shape.get('concrete_scripts'):
        return ctx.B(bytes([0x51]) * n)
    return mk_bytes(ctx, name, n)


def mk_tx_fields(ctx, shape, pre='t'):
    """shape: dict(sig=[len per input], spk=[len per output], wit=None | [[item lens] per input],
    concrete_scripts=bool: scripts are fixed OP_1 filler (when script content is not the subject))"""
    f = dict(nVersion=ctx.int(pre + '_ver', -(1 << 31), (1 << 31) - 1),
             nLockTime=ctx.int(pre + '_lock', 0, 0xffffffff), vin=[], vout=[], wit=None)
    for i, sl in enumerate(shape['sig']):
        f['vin'].append(dict(hash=ctx.bytes('%s_i%d_hash' % (pre, i), 32), n=ctx.int('%s_i%d_n' % (pre, i), 0, 0xffffffff),
                             scriptSig=_script(ctx, shape, '%s_i%d_sig' % (pre, i), sl),
                             nSequence=ctx.int('%s_i%d_seq' % (pre, i), 0, 0xffffffff)))
    for j, pl in enumerate(shape['spk']):
        f['vout'].append(dict(nValue=ctx.int('%s_o%d_val' % (pre, j), 0, 1000) if shape.get('small_values') else
                              ctx.int('%s_o%d_val' % (pre, j), -(1 << 63), (1 << 63) - 1),
                              scriptPubKey=_script(ctx, shape, '%s_o%d_spk' % (pre, j), pl)))
    if shape.get('wit') is not None:
        f['wit'] = [[mk_bytes(ctx, '%s_w%d_%d' % (pre, i, k), ln) for k, ln in enumerate(st)]
                    for i, st in enumerate(shape['wit'])]
    return f


def build_tx(ctx, f, mutable=False):
    """construct the library object from field values"""
    C = ctx.core
    S = ctx.script
    if mutable:
        vin = [C.CMutableTxIn(C.CMutableOutPoint(i['hash'], i['n']), S.CScript(i['scriptSig']), i['nSequence']) for i in f['vin']]
        vout = [C.CMutableTxOut(o['nValue'], S.CScript(o['scriptPubKey'])) for o in f['vout']]
        cls = C.CMutableTransaction
    else:
        vin = [C.CTxIn(C.COutPoint(i['hash'], i['n']), S.CScript(i['scriptSig']), i['nSequence']) for i in f['vin']]
        vout = [C.CTxOut(o['nValue'], S.CScript(o['scriptPubKey'])) for o in f['vout']]
        cls = C.CTransaction
    if f.get('wit') is not None:
        wit = C.CTxWitness(tuple(C.CTxInWitness(S.CScriptWitness(tuple(st))) for st in f['wit']))
        return cls(vin, vout, f['nLockTime'], f['nVersion'], wit)
    return cls(vin, vout, f['nLockTime'], f['nVersion'])


def tx_fields_equal(ctx, tx, f):
    """conjunction: every field of the library object equals the reference field"""
    conds = [tx.nVersion == f['nVersion'], tx.nLockTime == f['nLockTime'],
             len(tx.vin) == len(f['vin']), len(tx.vout) == len(f['vout'])]
    if len(tx.vin) != len(f['vin']) or len(tx.vout) != len(f['vout']):
        return False
    for a, b in zip(tx.vin, f['vin']):
        conds += [a.prevout.hash == b['hash'], a.prevout.n == b['n'], a.scriptSig == b['scriptSig'],
                  a.nSequence == b['nSequence']]
    for a, b in zip(tx.vout, f['vout']):
        conds += [a.nValue == b['nValue'], a.scriptPubKey == b['scriptPubKey']]
    w = f.get('wit')
    from refs import ref_wire
    if ref_wire.has_witness(f):
        if len(tx.wit.vtxinwit) != len(f['vin']):
            return False
        for a, st in zip(tx.wit.vtxinwit, w):
            if len(a.scriptWitness.stack) != len(st):
                return False
            for x, y in zip(a.scriptWitness.stack, st):
                conds.append(x == y)
    else:
        conds.append(tx.wit.is_null())
    return ctx.and_(*conds)


def mk_header_fields(ctx, pre='h'):
    return dict(nVersion=ctx.int(pre + '_ver', -(1 << 31), (1 << 31) - 1), hashPrevBlock=ctx.bytes(pre + '_prev', 32),
                hashMerkleRoot=ctx.bytes(pre + '_root', 32), nTime=ctx.int(pre + '_time', 0, 0xffffffff),
                nBits=ctx.int(pre + '_bits', 0, 0xffffffff), nNonce=ctx.int(pre + '_nonce', 0, 0xffffffff))


def header_fields_equal(ctx, h, f):
    return ctx.and_(h.nVersion == f['nVersion'], h.hashPrevBlock == f['hashPrevBlock'],
                    h.hashMerkleRoot == f['hashMerkleRoot'], h.nTime == f['nTime'], h.nBits == f['nBits'],
                    h.nNonce == f['nNonce'])


def cut_positions(n, dense=96):
    """strict prefixes to try: all when short, else both ends densely plus a coarse sweep"""
    if n <= 2 * dense:
        return list(range(n))
    s = set(range(dense)) | set(range(n - dense, n)) | set(range(0, n, max(1, n // 64)))
    for b in (0xfc, 0xfd, 0xfe, 0xff, 0x100, 0xffff, 0x10000, 0x10001, 0x10003):
        for d in (-1, 0, 1):
            if 0 <= b + d < n:
                s.add(b + d)
    return sorted(s)
