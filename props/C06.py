"""C06 - Script evaluation agrees with reference Script semantics on every program (bounded)."""
import itertools
from refs import ref_interp as RI
from refs import ref_script as RS
from props import common as K

ID = 'C06'
FUNCTIONS = ['scripteval._EvalScript', 'scripteval.EvalScript', 'scripteval.VerifyScript', 'scripteval._CastToBigNum', 'scripteval._CastToBool',
             'scripteval._UnaryOp', 'scripteval._BinOp', 'scripteval._CheckSig', 'scripteval._CheckMultiSig', 'script.FindAndDelete',
             'script.CScript.raw_iter', '_bignum.bn2vch/vch2bn', 'script.RawSignatureHash (inside CHECKSIG)', 'contrib.ripemd160.compress (lifted round body, prelude, tail) and ripemd160 (padding/splitting/output)']
ASSUMPTIONS = ['ECDSA verification is the oracle predicate V(pubkey, sighash, signature) on both sides (empty signature => false); the reference computes its own legacy sighash pre-image',
               'SHA-1 / SHA-256 / RIPEMD-160 opcodes: uninterpreted functions on both sides (stack plumbing is what is compared)',
               'double-SHA256 of the sighash pre-image is an uninterpreted function (digest equality through pre-image equality)']
STUBS = ['bitcoin.core.key.CECKey (oracle)', 'hashlib (UF)', 'struct']
OUTSIDE = ['programs longer than the stated bounds except the limit skeletons', 'DER / public-key encoding rules (oracle)',
           'flags the library does not implement', 'CLEANSTACK without P2SH (both sides assert)']
EXPECTED_LABELS = ['eval: fails exactly when the reference fails', 'eval: final stack == reference final stack', 'verify: accepts exactly when the reference accepts']

FLAGSETS = [(), ('P2SH',), ('NULLDUMMY',), ('DISCOURAGE',), ('P2SH', 'NULLDUMMY'), ('P2SH', 'CLEANSTACK'), ('P2SH', 'DISCOURAGE'),
            ('NULLDUMMY', 'DISCOURAGE'), ('P2SH', 'NULLDUMMY', 'CLEANSTACK'), ('P2SH', 'CLEANSTACK', 'DISCOURAGE'),
            ('P2SH', 'NULLDUMMY', 'DISCOURAGE'), ('P2SH', 'NULLDUMMY', 'CLEANSTACK', 'DISCOURAGE')]


def bounds(tier):
    return dict(one_step='each of the 256 opcode values (symbolic byte, solver-forked) from stacks of depth 0..4 with symbolic items; numeric operands of '
                'every length combination in {0,1,2,4,5}; executed and unexecuted branch; DISCOURAGE on/off',
                composition='two symbolic non-push opcodes from depth-3 stacks (thorough)', flow='all IF/NOTIF/ELSE/ENDIF skeletons of <= %d tokens' % (3 if tier == 'quick' else 4),
                limits='10 000/10 001 bytes, 520/521-byte pushes, 201/202 operations incl. multisig keys, 1000/1001 items via pushes, small ints, DUP, TOALTSTACK, and via ANY single opcode after 998..1000 one-byte pushes (also with 100 items on the altstack); 201-operation limit with a CHECKMULTISIG that examines a signature',
                signatures='CHECKSIG(VERIFY), CHECKMULTISIG(VERIFY) m-of-n n<=3 with symbolic keys/signatures, NULLDUMMY, CODESEPARATOR, signature removal',
                verify='the 12 admissible flag subsets; P2SH-shaped scriptPubKey with matching / non-matching redeem script')


def _flags(ctx, names):
    SE = ctx.scripteval
    m = {'P2SH': SE.SCRIPT_VERIFY_P2SH, 'NULLDUMMY': SE.SCRIPT_VERIFY_NULLDUMMY, 'CLEANSTACK': SE.SCRIPT_VERIFY_CLEANSTACK,
         'DISCOURAGE': SE.SCRIPT_VERIFY_DISCOURAGE_UPGRADABLE_NOPS}
    return set(m[n] for n in names)


_TXF = {}


def _tx(ctx, sym=False, shape=None):
    C = ctx.core
    S = ctx.script
    if sym:
        f = K.mk_tx_fields(ctx, shape or dict(sig=[0], spk=[1], wit=None), pre='tx')
        tx = K.build_tx(ctx, f)
    else:
        f = dict(nVersion=2, nLockTime=7, wit=None,
                 vin=[dict(hash=ctx.B(bytes(range(32))), n=1, scriptSig=ctx.B(b''), nSequence=0xfffffffe)],
                 vout=[dict(nValue=5000, scriptPubKey=ctx.B(b'\x51'))])
        tx = K.build_tx(ctx, f)
    _TXF[id(tx)] = (tx, f)
    if len(_TXF) > 64:
        for k in list(_TXF)[:32]:
            del _TXF[k]
    return tx


def _fields(tx):
    e = _TXF.get(id(tx))
    return e[1] if e is not None and e[0] is tx else None


def _compare_eval(ctx, script, stack_items, flags, tx=None, idx=0):
    """run library EvalScript and the reference on copies of the same initial stack; compare"""
    SE = ctx.scripteval
    S = ctx.script
    tx = tx if tx is not None else _tx(ctx)
    lib_stack = list(stack_items)
    ref_stack = list(stack_items)
    try:
        SE.EvalScript(lib_stack, S.CScript(script), tx, idx, flags=_flags(ctx, flags))
        lib_ok = True
    except SE.EvalScriptError:
        lib_ok = False
    try:
        RI._step.extra_ops = 0
        RI.eval_script(ctx, ref_stack, script, set(flags), RI.Checker(ctx, tx, idx, _fields(tx)))
        ref_ok = True
    except RI.Fail:
        ref_ok = False
    ctx.check(lib_ok == ref_ok, 'eval: fails exactly when the reference fails',
              detail='library %s, reference %s' % ('ok' if lib_ok else 'fails', 'ok' if ref_ok else 'fails'))
    if lib_ok and ref_ok:
        if len(lib_stack) != len(ref_stack):
            ctx.fail('eval: final stack == reference final stack', 'depth %d vs %d' % (len(lib_stack), len(ref_stack)))
            return
        same = True
        for a, b in zip(lib_stack, ref_stack):
            if len(a) != len(b):
                ctx.fail('eval: final stack == reference final stack', 'item length %d vs %d' % (len(a), len(b)))
                return
            same = ctx.and_(same, a == b)
        ctx.check(same, 'eval: final stack == reference final stack')


def h_step(ctx, lens, flags, lo, hi, unexec=False):
    """one symbolic opcode byte in [lo,hi] from a stack of symbolic items with the given lengths"""
    op = ctx.int('op', lo, hi)
    items = [ctx.bytes('s%d' % i, n) for i, n in enumerate(lens)]
    if unexec:
        script = ctx.B(b'\x00\x63') + ctx.bytes_of([op]) + ctx.B(b'\x68')
    else:
        script = ctx.bytes_of([op])
    _compare_eval(ctx, script, items, flags)


def h_prog(ctx, ops, lens, flags):
    """program given as a list: int = concrete byte, 's' = symbolic non-push opcode byte, 'a' = any symbolic byte"""
    bs = []
    for k, o in enumerate(ops):
        if o == 's':
            bs.append(ctx.int('op%d' % k, 0x4f, 0xff))
        elif o == 'a':
            bs.append(ctx.int('op%d' % k, 0, 0xff))
        else:
            bs.append(o)
    items = [ctx.bytes('s%d' % i, n) for i, n in enumerate(lens)]
    _compare_eval(ctx, ctx.bytes_of(bs), items, flags)


def h_prog2(ctx, lo, hi, lens, second='a'):
    """two symbolic bytes: the first in [lo,hi] (band only spreads the work), the second arbitrary / non-push"""
    b0 = ctx.int('op0', lo, hi)
    b1 = ctx.int('op1', 0x4f if second == 's' else 0, 0xff)
    items = [ctx.bytes('s%d' % i, n) for i, n in enumerate(lens)]
    _compare_eval(ctx, ctx.bytes_of([b0, b1]), items, ())


def h_limit(ctx, kind, n):
    B = ctx.B
    tail = ctx.int('tail', 0x4f, 0xff)
    if kind == 'size':
        # unexecuted branch full of 75-byte pushes: only the size rule decides
        body = (bytes([0x4b]) + bytes(75)) * ((n - 4) // 76)
        pad = n - 4 - len(body)
        script = B(b'\x00\x63' + body + b'\x61' * pad + b'\x68') + ctx.bytes_of([tail])
        items = []
    elif kind == 'push':
        script = B(b'\x4d' + n.to_bytes(2, 'little') + bytes(n)) + ctx.bytes_of([tail])
        items = []
    elif kind == 'push_unexec':
        script = B(b'\x00\x63\x4d' + n.to_bytes(2, 'little') + bytes(n) + b'\x68') + ctx.bytes_of([tail])
        items = []
    elif kind == 'ops':
        script = B(b'\x61' * n) + ctx.bytes_of([tail])
        items = [ctx.bytes('s0', 1)]
    elif kind == 'ops_multisig':
        # n NOPs then 0 0 3-key CHECKMULTISIG: the key count is added to the operation count
        script = B(b'\x61' * n + b'\x00\x00\x01\x02\x01\x03\x01\x04\x53\xae')
        items = []
    elif kind == 'ops_multisig_sig':
        # as above with ONE signature to examine against 2 keys (1-of-2): the charge for the keys is the number of keys, however
        # many of them the signature loop consumes
        script = B(b'\x61' * n + b'\x00') + RS.push_encode(ctx, ctx.bytes('sig0', 9)) + B(b'\x51\x01\x02\x01\x03\x52\xae')
        items = []
    elif kind in ('stack_op0', 'stack_op1'):
        # n one-byte pushes, then ANY opcode: whichever opcode makes stack + altstack exceed 1000 items must fail there
        fill = b'\x00' if kind == 'stack_op0' else b'\x51'
        script = B(fill * n) + ctx.bytes_of([tail])
        items = []
    elif kind == 'stack_alt_op':
        # 100 items moved to the altstack first
        script = B(b'\x51' * n + b'\x6b' * 100) + ctx.bytes_of([ctx.int('tail2', 0x6b, 0x80)])
        items = []
    elif kind == 'stack_push':
        script = B(b'\x00' * n) + B(b'\x01') + ctx.bytes('last', 1)
        items = []
    elif kind == 'stack_smallint':
        script = B(b'\x00' * n) + ctx.bytes_of([ctx.int('small', 0x4f, 0x60)])
        items = []
    elif kind == 'stack_dup':
        tail = ctx.int('tail2', 0x74, 0x78)
        script = B(b'\x00' * n + b'\x76') + ctx.bytes_of([tail])
        items = []
    elif kind == 'stack_alt':
        tail = ctx.int('tail2', 0x6b, 0x6e)
        script = B(b'\x00' * n + b'\x6b\x00\x00') + ctx.bytes_of([tail])
        items = []
    _compare_eval(ctx, script, items, ())


def h_flow(ctx, toks):
    """control-flow skeleton with symbolic condition items"""
    m = {'I': 0x63, 'N': 0x64, 'E': 0x67, 'F': 0x68, '1': 0x51, '0': 0x00, 'D': 0x76, 'V': 0x69}
    script = ctx.B(bytes(m[t] for t in toks))
    items = [ctx.bytes('c0', 1), ctx.bytes('c1', 2)]
    _compare_eval(ctx, script, items, ())


def h_sig(ctx, shape, flags):
    """signature opcodes: symbolic signatures / keys, oracle V"""
    B = ctx.B
    tx = _tx(ctx, sym=shape.get('symtx', False), shape=shape.get('txshape'))
    idx = shape.get('idx', 0)
    pk = lambda k: ctx.bytes('pk%d' % k, 33)
    sg = lambda k, n: ctx.bytes('sig%d' % k, n)
    push = lambda d: RS.push_encode(ctx, d)
    kind = shape['kind']
    if kind == 'checksig':
        sig = sg(0, shape['siglen'])
        script = push(sig) + push(pk(0)) + B(bytes([shape.get('op', 0xac)]))
        if shape.get('embed'):
            # the same signature bytes pushed inside the script: must be removed from the signed script code
            script = push(sig) + B(b'\x75') + script
        if shape.get('codesep'):
            script = B(b'\x51\xab\x75') + script[:len(push(sig))] + B(b'\xab') + script[len(push(sig)):]
        items = []
    elif kind == 'stacksig':
        # signature and key come from the initial stack, script only has the opcode (+ optional CODESEPARATORs)
        items = [sg(0, shape['siglen']), pk(0)]
        script = B(bytes(shape.get('pre', [])) + bytes([shape.get('op', 0xac)]))
    elif kind == 'multisig':
        m_, n_ = shape['m'], shape['n']
        sigs = [sg(k, shape['siglen']) for k in range(m_)]
        dummy = ctx.bytes('dummy', shape.get('dummylen', 0))
        script = push(dummy)
        for s in sigs:
            script = script + push(s)
        script = script + B(bytes([0x50 + m_]))
        for k in range(n_):
            script = script + push(pk(k))
        script = script + B(bytes([0x50 + n_, shape.get('op', 0xae)]))
        items = []
    _compare_eval(ctx, script, items, flags, tx=tx, idx=idx)


def h_verify(ctx, sig_ops, spk_ops, flags, band=None):
    """VerifyScript on short scripts given as byte lists with symbolic positions ('a' any byte, 's' non-push opcode);
    band restricts the first scriptSig byte (only to spread the work over cores)"""
    SE = ctx.scripteval
    S = ctx.script
    C = ctx.core

    def mk(ops, pre):
        bs = []
        for k, o in enumerate(ops):
            if o == 's':
                bs.append(ctx.int('%s%d' % (pre, k), 0x4f, 0xff))
            elif o == 'a':
                bs.append(ctx.int('%s%d' % (pre, k), 0, 0xff))
            else:
                bs.append(o)
        return ctx.bytes_of(bs)
    ssig, spk = mk(sig_ops, 'g'), mk(spk_ops, 'k')
    if band is not None:
        ctx.assume(ctx.and_(ssig[0] >= band[0], ssig[0] <= band[1]))
    tx = _tx(ctx)
    try:
        SE.VerifyScript(S.CScript(ssig), S.CScript(spk), tx, 0, flags=_flags(ctx, flags))
        lib_ok = True
    except C.ValidationError:
        lib_ok = False
    ref_ok = RI.verify_script(ctx, ssig, spk, set(flags), RI.Checker(ctx, tx, 0, _fields(tx)))
    ctx.check(lib_ok == ref_ok, 'verify: accepts exactly when the reference accepts',
              detail='library %s, reference %s' % (lib_ok, ref_ok))


def h_p2sh(ctx, redeem_ops, sig_prefix, flags, match):
    """P2SH-shaped scriptPubKey; the pushed redeem script hashes to the committed value + symbolic delta"""
    SE = ctx.scripteval
    S = ctx.script
    C = ctx.core
    bs = []
    for k, o in enumerate(redeem_ops):
        bs.append(ctx.int('r%d' % k, 0, 0xff) if o == 'a' else (ctx.int('r%d' % k, 0x4f, 0xff) if o == 's' else o))
    redeem = ctx.bytes_of(bs)
    h = ctx.hash160(redeem)
    d = ctx.int('hdelta', 0, 255) if not match else 0
    commit = ctx.bytes_of([(h[0] + d) % 256]) + h[1:]
    spk = ctx.B(b'\xa9\x14') + commit + ctx.B(b'\x87')
    ssig = ctx.B(bytes(sig_prefix)) + RS.push_encode(ctx, redeem)
    tx = _tx(ctx)
    try:
        SE.VerifyScript(S.CScript(ssig), S.CScript(spk), tx, 0, flags=_flags(ctx, flags))
        lib_ok = True
    except C.ValidationError:
        lib_ok = False
    ref_ok = RI.verify_script(ctx, ssig, spk, set(flags), RI.Checker(ctx, tx, 0))
    ctx.check(lib_ok == ref_ok, 'verify: accepts exactly when the reference accepts', detail='library %s, reference %s' % (lib_ok, ref_ok))


def h_ripemd_step(ctx, j0, j1):
    """lifted body of the 80-round loop of contrib.ripemd160.compress == the specification's round, for arbitrary state and message block;
    congruence modulo 2^32 is the invariant (the library keeps unmasked sums)"""
    from refs import ref_ripemd160 as RR
    if not ctx.symbolic:
        # concrete twin: the whole function on the recorded block against the reference (every message exercises all 80 rounds)
        blk = ctx.bytes('block', 64)
        R = ctx.mod('bitcoin.core.contrib.ripemd160')
        ctx.check(R.ripemd160(blk) == RR.ripemd160(ctx, blk) and R.ripemd160(blk[:7]) == RR.ripemd160(ctx, blk[:7]),
                  'ripemd160: lifted round == specification round (mod 2^32)')
        return
    from symx import lift
    names = ['al', 'bl', 'cl', 'dl', 'el', 'ar', 'br', 'cr', 'dr', 'er']
    step, info = lift.lift_for_body(ctx.lib, 'bitcoin.core.contrib.ripemd160', 'compress', names, extra_args=['h0', 'h1', 'h2', 'h3', 'h4', 'block'])
    M = 0xffffffff
    h = [ctx.int('h%d' % i, 0, M) for i in range(5)]
    block = ctx.bytes('block', 64)
    # inductive size invariant of the unmasked state: a, d, e < 2^32 and b, c < 2^33 on both lines
    lim = {'a': 1 << 32, 'b': 1 << 33, 'c': 1 << 33, 'd': 1 << 32, 'e': 1 << 32}
    st = [ctx.int('s_' + n, 0, lim[n[0]] - 1) for n in names]
    x = [block[4 * i] | (block[4 * i + 1] << 8) | (block[4 * i + 2] << 16) | (block[4 * i + 3] << 24) for i in range(16)]
    for j in range(j0, j1):
        got = step(h[0], h[1], h[2], h[3], h[4], block, *st, j)
        al, bl, cl, dl, el, ar, br, cr, dr, er = [v & M for v in st]
        t = (RR._rol((al + RR._f(j, bl, cl, dl) + x[RR.R_L[j]] + RR.K_L[j // 16]) & M, RR.S_L[j]) + el) & M
        wl = [el, t, bl, RR._rol(cl, 10), dl]
        t = (RR._rol((ar + RR._f(79 - j, br, cr, dr) + x[RR.R_R[j]] + RR.K_R[j // 16]) & M, RR.S_R[j]) + er) & M
        wr = [er, t, br, RR._rol(cr, 10), dr]
        want = wl + wr
        ctx.check(ctx.and_(*[(g & M) == w for g, w in zip(got, want)]), 'ripemd160: lifted round == specification round (mod 2^32)', detail='round %d' % j)
        ctx.check(ctx.and_(*[ctx.and_(g >= 0, g < lim[n[0]]) for g, n in zip(got, names)]), 'ripemd160: size invariant of the unmasked state is inductive')
    if j0 == 0:
        # prelude (state initialisation) and tail (feed-forward) of compress
        fin = step.final(h[0], h[1], h[2], h[3], h[4], block, *st)
        al, bl, cl, dl, el, ar, br, cr, dr, er = [v & M for v in st]
        want = [(h[1] + cl + dr) & M, (h[2] + dl + er) & M, (h[3] + el + ar) & M, (h[4] + al + br) & M, (h[0] + bl + cr) & M]
        ctx.check(ctx.and_(*[(g & M) == w for g, w in zip(fin, want)]), 'ripemd160: feed-forward == specification (mod 2^32)')
        ctx.check(any('al, bl, cl, dl, el = (h0, h1, h2, h3, h4)' in p.replace('(', '(').replace('  ', ' ') or 'al, bl, cl, dl, el = h0, h1, h2, h3, h4' in p
                      for p in info['prelude']), 'ripemd160: both lines start from the chaining value')


def h_ripemd_glue(ctx, n):
    """padding, block splitting and output conversion of ripemd160(): compress replaced by a recorder (symbolic run) /
    whole function against the reference (concrete twin)"""
    from refs import ref_ripemd160 as RR
    R = ctx.mod('bitcoin.core.contrib.ripemd160')
    msg = ctx.bytes('m', n)
    if not ctx.symbolic:
        ctx.check(R.ripemd160(msg) == RR.ripemd160(ctx, msg), 'ripemd160 == reference (concrete twin)')
        return
    blocks = []
    orig = R.compress

    def rec(h0, h1, h2, h3, h4, block):
        blocks.append(block)
        return (h1, h2, h3, h4, h0 + len(blocks))
    R.compress = rec
    ctx.set_state('ripemd160', 'code')
    try:
        out = R.ripemd160(msg)
    finally:
        R.compress = orig
    data = [msg[i] for i in range(n)] + [0x80] + [0] * ((55 - n) % 64) + list((8 * n).to_bytes(8, 'little'))
    want = [data[o:o + 64] for o in range(0, len(data), 64)]
    ok = len(blocks) == len(want) and all(len(b) == 64 for b in blocks)
    ctx.check(ok, 'ripemd160: number and size of compressed blocks')
    if ok:
        ctx.check(ctx.and_(*[b == ctx.bytes_of(w) for b, w in zip(blocks, want)]), 'ripemd160: padded blocks == specification')
    # output: little-endian words of the final state (here: the recorder's rotation of the initial value)
    st = [0x67452301, 0xefcdab89, 0x98badcfe, 0x10325476, 0xc3d2e1f0]
    for k in range(len(want)):
        st = [st[1], st[2], st[3], st[4], st[0] + k + 1]
    exp = []
    for w in st:
        w &= 0xffffffff
        exp += [w & 0xff, (w >> 8) & 0xff, (w >> 16) & 0xff, (w >> 24) & 0xff]
    ctx.check(out == ctx.bytes_of(exp), 'ripemd160: output is the little-endian state')


HARNESSES = {'ripemd_step': h_ripemd_step, 'ripemd_glue': h_ripemd_glue, 'step': h_step, 'prog': h_prog, 'prog2': h_prog2, 'limit': h_limit, 'flow': h_flow, 'sig': h_sig, 'verify': h_verify, 'p2sh': h_p2sh}

OPBANDS = [(0x00, 0x4e), (0x4f, 0x60), (0x61, 0x6a), (0x6b, 0x7d), (0x7e, 0x8a), (0x8b, 0x92), (0x93, 0xa5), (0xa6, 0xaa), (0xab, 0xaf), (0xb0, 0xff)]


def instances(tier):
    out = []
    # one step, generic stacks of 1-byte items (depth 0..4) - every opcode value
    for depth in range(0, 5):
        for lo, hi in OPBANDS:
            if (lo, hi) == (0x00, 0x4e):
                continue        # pushes inside a 1-byte script are truncated except OP_0: covered by 'prog'
            out.append(dict(h='step', p=dict(lens=[1] * depth, flags=[], lo=lo, hi=hi)))
    out.append(dict(h='step', p=dict(lens=[1, 1, 1, 1, 1, 1], flags=[], lo=0x6b, hi=0x7d)))
    for depth in (0, 2):
        out.append(dict(h='step', p=dict(lens=[1] * depth, flags=['DISCOURAGE'], lo=0xb0, hi=0xb9)))
        out.append(dict(h='step', p=dict(lens=[1] * depth, flags=[], lo=0x4f, hi=0xff, unexec=True), max_seconds=900))
        out.append(dict(h='step', p=dict(lens=[1] * depth, flags=['DISCOURAGE'], lo=0xb0, hi=0xb9, unexec=True)))
    # numeric operand lengths
    L = [0, 1, 2, 4, 5]
    for a in L:
        out.append(dict(h='step', p=dict(lens=[a], flags=[], lo=0x8b, hi=0x92)))
        out.append(dict(h='step', p=dict(lens=[1, a], flags=[], lo=0x79, hi=0x7a)))      # PICK / ROLL index operand
        out.append(dict(h='step', p=dict(lens=[a], flags=[], lo=0x63, hi=0x64)))         # IF / NOTIF truthiness (unbalanced -> fail both)
        out.append(dict(h='prog', p=dict(ops=[0x63, 0x51, 0x67, 0x52, 0x68], lens=[a], flags=[])))
        out.append(dict(h='prog', p=dict(ops=[0x69], lens=[a], flags=[])))
        out.append(dict(h='prog', p=dict(ops=[0x73], lens=[a], flags=[])))
        for b in L:
            out.append(dict(h='step', p=dict(lens=[a, b], flags=[], lo=0x93, hi=0xa4)))
            if tier != 'quick' or (a + b) % 2 == 0:
                for c in (L if tier != 'quick' else [0, 1, 4, 5]):
                    out.append(dict(h='step', p=dict(lens=[a, b, c], flags=[], lo=0xa5, hi=0xa5)))
    for n in (0, 1, 2, 3, 9):
        out.append(dict(h='step', p=dict(lens=[n, n], flags=[], lo=0x87, hi=0x88)))
        out.append(dict(h='step', p=dict(lens=[n], flags=[], lo=0x82, hi=0x82)))
        out.append(dict(h='step', p=dict(lens=[n], flags=[], lo=0xa6, hi=0xaa)))
    out.append(dict(h='step', p=dict(lens=[1, 2], flags=[], lo=0x87, hi=0x88)))
    # short programs with push bytes
    for ops in ([0x00], [0x01, 'a'], [0x02, 'a', 'a'], [0x4c, 0x01, 'a'], [0x4d, 0x01, 0x00, 'a'], [0x4e, 0x01, 0, 0, 0, 'a'],
                ['a'], [0x51, 's'], [0x51, 0x52, 's'], [0x00, 's'], [0x4f, 's']):
        out.append(dict(h='prog', p=dict(ops=ops, lens=[1], flags=[]), max_seconds=900))
    if tier != 'quick':
        for lo, hi in OPBANDS:
            out.append(dict(h='prog2', p=dict(lo=lo, hi=hi, lens=[1]), max_seconds=3000))
            if lo >= 0x4f:
                # bands that contain comparison / MIN / MAX opcodes are split per opcode: followed by a hash opcode their paths
                # carry the exact-table-to-function-symbol constraints of the hash stub and are slow
                subs = [(o, o) for o in range(lo, hi + 1)] if (hi >= 0x8b and lo <= 0xa5) else [(lo, hi)]
                for l2, h2 in subs:
                    out.append(dict(h='prog2', p=dict(lo=l2, hi=h2, lens=[1, 1, 1], second='s'), max_seconds=3000))
    # control flow skeletons
    alpha = 'INEF10DV'
    for k in range(1, (3 if tier == 'quick' else 4) + 1):
        for toks in itertools.product(alpha, repeat=k):
            if not any(t in 'INEF' for t in toks):
                continue
            out.append(dict(h='flow', p=dict(toks=''.join(toks)), witness_every=0, keep_witnesses=0))
    # limits
    for kind, ns in (('size', (9999, 10000)), ('push', (520, 521)), ('push_unexec', (520, 521)), ('ops', (200, 201)), ('ops_multisig', (197, 198, 199)), ('ops_multisig_sig', (197, 198, 199)),
                     ('stack_op0', (999, 1000)), ('stack_op1', (998, 999, 1000)), ('stack_alt_op', (999, 1000)),
                     ('stack_push', (998, 999, 1000)), ('stack_smallint', (999, 1000)), ('stack_dup', (998, 999, 1000)), ('stack_alt', (997, 998, 999))):
        for n in ns:
            out.append(dict(h='limit', p=dict(kind=kind, n=n), max_seconds=900))
    # RIPEMD-160 as code: 80 round lemmas + glue (padding / splitting / output) for message lengths 0..130
    for j0 in range(0, 80, 10):
        out.append(dict(h='ripemd_step', p=dict(j0=j0, j1=j0 + 10), max_seconds=1500))
    for n in ([0, 1, 55, 56, 63, 64, 65, 119, 120, 128] if tier == 'quick' else range(0, 131)):
        out.append(dict(h='ripemd_glue', p=dict(n=n)))
    # signatures
    for sl in (0, 1, 9):
        for op in (0xac, 0xad):
            out.append(dict(h='sig', p=dict(shape=dict(kind='checksig', siglen=sl, op=op), flags=[])))
            out.append(dict(h='sig', p=dict(shape=dict(kind='stacksig', siglen=sl, op=op, pre=[0xab, 0x61, 0xab]), flags=[])))
    out.append(dict(h='sig', p=dict(shape=dict(kind='checksig', siglen=9, embed=True), flags=[])))
    out.append(dict(h='sig', p=dict(shape=dict(kind='checksig', siglen=9, codesep=True, symtx=True), flags=[])))
    out.append(dict(h='sig', p=dict(shape=dict(kind='checksig', siglen=9, symtx=True, txshape=dict(sig=[0, 0], spk=[1, 1, 1], wit=None), idx=1), flags=[])))
    out.append(dict(h='sig', p=dict(shape=dict(kind='stacksig', siglen=2, symtx=True, txshape=dict(sig=[0, 0, 0], spk=[1], wit=None), idx=2), flags=[])))
    for (m_, n_) in ((0, 0), (0, 1), (1, 1), (1, 2), (2, 2), (2, 3), (3, 3)):
        for op in (0xae, 0xaf):
            for fl, dl in (([], 0), ([], 1), (['NULLDUMMY'], 0), (['NULLDUMMY'], 1)):
                if tier == 'quick' and ((m_, n_) == (3, 3) or ((m_, n_) == (2, 3) and (op == 0xaf or fl or dl))):
                    continue
                out.append(dict(h='sig', p=dict(shape=dict(kind='multisig', m=m_, n=n_, siglen=9 if m_ < 3 else 2, op=op, dummylen=dl), flags=fl),
                                max_seconds=900))
    # VerifyScript, flag subsets
    progs = [([0x51], [0x51]), ([0x00], [0x51]), ([0x51], [0x00]), (['a'], ['a']), ([0x51, 0x52], [0x87 + 0]), ([0x51, 0x51], [0x87]),
             ([], [0x51]), ([0x51], []), ([0x51, 0x51], [0x61]), ([0x01, 'a'], [0x69, 0x51]), (['s'], [0x51])]
    quick_fs = [(), ('P2SH', 'CLEANSTACK'), ('P2SH', 'NULLDUMMY', 'CLEANSTACK', 'DISCOURAGE')]
    for fs in FLAGSETS:
        for sg, pk in progs:
            heavy = 'a' in sg and 'a' in pk
            if tier == 'quick' and (fs not in quick_fs or heavy) and not (heavy and fs == ()):
                continue
            if heavy:
                for bd in ((0, 0x50), (0x51, 0x60), (0x61, 0x7f), (0x80, 0xa5), (0xa6, 0xff)):
                    out.append(dict(h='verify', p=dict(sig_ops=sg, spk_ops=pk, flags=list(fs), band=list(bd)), max_seconds=1500))
            else:
                out.append(dict(h='verify', p=dict(sig_ops=sg, spk_ops=pk, flags=list(fs)), max_seconds=1500))
        if 'P2SH' in fs and (tier != 'quick' or fs in quick_fs or fs == ('P2SH',)):
            for red, pre, match in (([0x51], [], True), ([0x00], [], True), (['a'], [], True), ([0x51], [], False), ([0x51], [0x61], True),
                                    ([0x51, 0x51], [], True), ([0x75, 0x51], [0x52], True), (['s', 0x51], [0x51], True)):
                out.append(dict(h='p2sh', p=dict(redeem_ops=red, sig_prefix=pre, flags=list(fs), match=match)))
    return out
