"""C20 - bloom filter: no false negatives, BIP37 bit schedule, lossless wire form."""
from refs import ref_bloom as RB
from refs import ref_wire as W

ID = 'C20'
FUNCTIONS = ['bloom.MurmurHash3', 'bloom._ROTL32', 'bloom.CBloomFilter.__init__', 'bloom.CBloomFilter.bloom_hash',
             'bloom.CBloomFilter.insert', 'bloom.CBloomFilter.contains', 'bloom.CBloomFilter.stream_serialize/stream_deserialize',
             'bloom.CBloomFilter.IsWithinSizeConstraints']
ASSUMPTIONS = ['compositional step: in the filter-logic instances marked abstract, MurmurHash3 is one uninterpreted function on both sides; '
               'its equality with the reference is the separate murmur harness (all seeds, all data of length 0..40)',
               'math.log returns an arbitrary finite negative double for rates in (0,1) (its numerical accuracy is outside the claim)',
               'IEEE-754 double arithmetic as modelled by z3 FP (RNE) for the two sizing expressions']
STUBS = ['struct', 'io.BytesIO', 'math.log (arbitrary negative double)']
OUTSIDE = ['elements longer than 40 bytes (hash) / 9 bytes (filter operations)', 'filters with more than 8 data bytes',
           'numerical accuracy of math.log', 'nElements above 2^40 for the sizing caps']
EXPECTED_LABELS = ['murmur == reference', 'insert: bits == old | schedule', 'contains after insert', 'round trip preserves fields',
                   'empty data: contains is true', 'sizing: len(vData) <= 36000', 'sizing: nHashFuncs <= 50']


def bounds(tier):
    return dict(murmur='all 32-bit seeds, data length 0..%d, all byte values' % (24 if tier == 'quick' else 40),
                filter='vData length in {1,2,3,8} symbolic content, nHashFuncs 0..4 (symbolic 0..50 with 1 data byte), '
                       'nTweak symbolic 32 bits, elements 0..9 symbolic bytes or a symbolic COutPoint, <= 3 insertions',
                sizing='nElements symbolic 1..2^40, log value arbitrary negative finite double')


def _mk_filter(ctx, nbytes, nhash, pre='f'):
    B = ctx.mod('bitcoin.bloom')
    data = ctx.bytes(pre + '_data', nbytes)
    tweak = ctx.int(pre + '_tweak', 0, 0xffffffff)
    flags = ctx.int(pre + '_flags', 0, 255)
    raw = W.varbytes(ctx, data) + W.le(ctx, nhash, 4) + W.le(ctx, tweak, 4) + W.le(ctx, flags, 1)
    f = B.CBloomFilter.deserialize(raw)
    return f, data, tweak, flags, raw


class _Abstract(object):
    """Compositional step: MurmurHash3 (proved equal to the reference by the 'murmur' harness for every length used
    here) is replaced by one uninterpreted function in the library and in the reference.  Concrete replay uses the real ones."""

    def __init__(self, ctx, on):
        self.ctx = ctx
        self.on = on and ctx.symbolic
        self.B = ctx.mod('bitcoin.bloom')
        self.murmur = None

    def __enter__(self):
        if self.on:
            ctx = self.ctx
            self.orig = self.B.MurmurHash3

            def uf(seed, data):
                return ctx.uf('murmur3', 32, (seed, 32), data)
            self.B.MurmurHash3 = uf
            self.murmur = uf
        return self

    def __exit__(self, *a):
        if self.on:
            self.B.MurmurHash3 = self.orig
        return False


def h_murmur(ctx, n):
    B = ctx.mod('bitcoin.bloom')
    seed = ctx.int('seed', 0, 0xffffffff)
    data = ctx.bytes('data', n)
    got = B.MurmurHash3(seed, data)
    ctx.check(got == RB.murmur3(ctx, seed, data), 'murmur == reference')
    ctx.check(ctx.and_(got >= 0, got <= 0xffffffff), 'murmur in 32 bits')


def _expect_after(ctx, old, idxs):
    """per-byte value after setting the scheduled bits"""
    out = []
    for p in range(len(old)):
        v = old[p]
        for ix in idxs:
            v = v | ctx.ite((ix >> 3) == p, 1 << (ix & 7), 0)
        out.append(v)
    return out


def h_insert(ctx, nbytes, nhash, elens, outpoint=False, abstract=False):
    with _Abstract(ctx, abstract) as ab:
        _h_insert(ctx, nbytes, nhash, elens, outpoint, ab.murmur)


def _h_insert(ctx, nbytes, nhash, elens, outpoint, murmur):
    B = ctx.mod('bitcoin.bloom')
    C = ctx.core
    f, data, tweak, flags, raw = _mk_filter(ctx, nbytes, nhash)
    ctx.check(ctx.and_(f.vData == data, f.nHashFuncs == nhash, f.nTweak == tweak, f.nFlags == flags), 'deserialize restores fields')
    cur = [data[i] for i in range(nbytes)]
    full = (nbytes == 1) and ctx.is_true(data[0] == 0xff)
    elems = []
    for k, ln in enumerate(elens):
        if outpoint and k == 0:
            oh = ctx.bytes('op_hash', 32)
            on = ctx.int('op_n', 0, 0xffffffff)
            e = C.COutPoint(oh, on)
            eb = oh + W.le(ctx, on, 4)
        else:
            e = ctx.bytes('e%d' % k, ln)
            eb = e
        f.insert(e)
        if not full:
            cur = _expect_after(ctx, cur, RB.schedule(ctx, nbytes * 8, nhash, tweak, eb, murmur))
        ctx.check(ctx.and_(*[f.vData[p] == cur[p] for p in range(nbytes)]), 'insert: bits == old | schedule')
        elems.append(e)
        for e2 in elems:
            ctx.check(f.contains(e2), 'contains after insert')
    # wire round trip preserves everything, including membership answers
    ser = f.serialize()
    ctx.check(ser == W.varbytes(ctx, ctx.bytes_of(cur)) + W.le(ctx, nhash, 4) + W.le(ctx, tweak, 4) + W.le(ctx, flags, 1),
              'serialize == wire layout')
    g = B.CBloomFilter.deserialize(ser)
    ctx.check(ctx.and_(g.vData == f.vData, g.nHashFuncs == f.nHashFuncs, g.nTweak == f.nTweak, g.nFlags == f.nFlags),
              'round trip preserves fields')
    for e2 in elems:
        ctx.check(g.contains(e2), 'round trip preserves membership')
    q = ctx.bytes('q', 2)
    a1 = f.contains(q)
    a2 = g.contains(q)
    ctx.check(a1 == a2, 'round trip preserves membership')


def h_contains_def(ctx, nbytes, nhash, elen, abstract=False):
    """contains(e) is true exactly when every scheduled bit is set"""
    with _Abstract(ctx, abstract) as ab:
        _h_contains_def(ctx, nbytes, nhash, elen, ab.murmur)


def _h_contains_def(ctx, nbytes, nhash, elen, murmur):
    B = ctx.mod('bitcoin.bloom')
    f, data, tweak, flags, raw = _mk_filter(ctx, nbytes, nhash)
    e = ctx.bytes('e', elen)
    got = f.contains(e)
    idxs = RB.schedule(ctx, nbytes * 8, nhash, tweak, e, murmur)
    want = True
    for ix in idxs:
        byte = 0
        for p in range(nbytes):
            byte = ctx.ite((ix >> 3) == p, data[p], byte)
        want = ctx.and_(want, ((byte >> (ix & 7)) & 1) == 1)
    if nbytes == 1:
        want = ctx.or_(want, data[0] == 0xff)
    ctx.check(ctx.iff(got, want), 'contains == all scheduled bits set')


def h_manyfuncs(ctx, nbytes, hi=50):
    with _Abstract(ctx, True):
        B = ctx.mod('bitcoin.bloom')
        nhash = ctx.int('nhash', 0, hi)
        f, data, tweak, flags, raw = _mk_filter(ctx, nbytes, nhash)
        e = ctx.bytes('e', 3)
        f.insert(e)
        ctx.check(f.contains(e), 'contains after insert')


def h_empty(ctx, nhash_hi):
    B = ctx.mod('bitcoin.bloom')
    nhash = ctx.int('nhash', 0, nhash_hi)
    f, data, tweak, flags, raw = _mk_filter(ctx, 0, nhash)
    e = ctx.bytes('e', 2)
    f.insert(e)
    ctx.check(len(f.vData) == 0, 'empty data: insert does not fail')
    ctx.check(f.contains(e), 'empty data: contains is true')
    ctx.check(f.contains(ctx.bytes('q', 1)), 'empty data: contains is true')
    # outpoints take their own route into insert / contains
    C = ctx.core
    op = C.COutPoint(ctx.bytes('op_hash', 32), ctx.int('op_n', 0, 0xffffffff))
    ctx.check(f.contains(op), 'empty data: contains is true', detail='outpoint query')
    f.insert(op)
    ctx.check(len(f.vData) == 0, 'empty data: insert does not fail', detail='outpoint insert')
    ctx.check(f.contains(C.CMutableOutPoint(ctx.bytes('op2_hash', 32), 1)), 'empty data: contains is true', detail='mutable outpoint query')


class _Shim(object):
    def __init__(self, base, **kw):
        self.__dict__.update({k: getattr(base, k) for k in dir(base) if not k.startswith('__')})
        self.__dict__.update(kw)


def h_sizing(ctx, nmax=1 << 40):
    """caps for every element count and every value the logarithm may take (arbitrary finite negative double)"""
    B = ctx.mod('bitcoin.bloom')
    lv = ctx.float('logv')
    ctx.assume(ctx.and_(lv < 0.0, lv > -1e300))
    n = ctx.int('nElements', 1, nmax)
    if ctx.symbolic:
        ctx.set_state('log_value', lv)
        ctx.set_state('symlen_bytearray', True)
        f = B.CBloomFilter(n, 0.5, 0, 0)
    else:
        real_math = B.math
        B.math = _Shim(real_math, log=lambda x, *a: lv)
        try:
            f = B.CBloomFilter(n, 0.5, 0, 0)
        finally:
            B.math = real_math
    ln = f.vData._symlen if hasattr(f.vData, '_symlen') else len(f.vData)
    ctx.check(ln <= 36000, 'sizing: len(vData) <= 36000')
    ctx.check(f.nHashFuncs <= 50, 'sizing: nHashFuncs <= 50')
    ctx.check(ctx.and_(ln >= 0, f.nHashFuncs >= 0), 'sizing: non-negative')
    ctx.check(f.IsWithinSizeConstraints() if not hasattr(f.vData, '_symlen') else True, 'sizing: IsWithinSizeConstraints')


HARNESSES = {'murmur': h_murmur, 'insert': h_insert, 'contains_def': h_contains_def, 'manyfuncs': h_manyfuncs,
             'empty': h_empty, 'sizing': h_sizing}


def instances(tier):
    out = []
    for n in range(0, (24 if tier == 'quick' else 40) + 1):
        out.append(dict(h='murmur', p=dict(n=n)))
    for nbytes in (1, 2, 3, 5, 8):
        for nhash in (0, 1, 2, 3) if tier == 'quick' else (0, 1, 2, 3, 4):
            if nbytes * nhash > 16:
                continue
            # end-to-end (real murmur term) only where the solver copes: power-of-two bit counts and few functions
            e2e = nbytes in (1, 2, 8) and nhash <= 1
            out.append(dict(h='insert', p=dict(nbytes=nbytes, nhash=nhash, elens=[(nbytes + nhash) % 5, 4 + nhash], abstract=not e2e)))
            out.append(dict(h='contains_def', p=dict(nbytes=nbytes, nhash=nhash, elen=(nbytes + nhash) % 4 + 1, abstract=not e2e)))
    out.append(dict(h='insert', p=dict(nbytes=2, nhash=2, elens=[0, 9, 1], outpoint=True, abstract=True)))
    out.append(dict(h='insert', p=dict(nbytes=3, nhash=1, elens=[5, 6, 7], abstract=True)))
    out.append(dict(h='manyfuncs', p=dict(nbytes=1)))
    out.append(dict(h='manyfuncs', p=dict(nbytes=2, hi=8)))
    out.append(dict(h='empty', p=dict(nhash_hi=3)))
    out.append(dict(h='sizing', p=dict(nmax=1 << 40), max_seconds=1500, backend='cvc5', qto=600000))
    return out
