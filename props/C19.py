"""C19 - RPC proxy: exact amounts, Core-style hash endianness, faithful error mapping (scripted server)."""
from refs import ref_wire as W
from props import common as K

ID = 'C19'
FUNCTIONS = ['rpc.BaseProxy._call/_batch/_get_response', 'rpc.JSONRPCError.__new__ (subclass dispatch)', 'rpc.Proxy.getbalance/getinfo/getreceivedbyaddress/'
             'gettxout/listunspent/fundrawtransaction (received amounts)', 'rpc.Proxy.sendtoaddress/sendmany (sent amounts)',
             'rpc.Proxy.getbestblockhash/getblockhash/getblockheader/getrawtransaction/sendrawtransaction/getrawmempool/lockunspent (hash and hex crossing)',
             'core.lx/b2lx/x/b2x', 'rpc.hexlify_str/unhexlify_str']
ASSUMPTIONS = ['json: dumps captures the value tree, loads returns a scripted tree and honours parse_float (decimal.Decimal => exact decimal, default => correctly rounded '
               'double = IEEE division of the exact numerator by 10^scale); the C implementations of json/decimal and real HTTP are outside the claim',
               'sent amounts: decided = the captured JSON number is exactly the IEEE correctly-rounded double quotient double(a) / 1e8 (a < 2^53 is exact); paper steps (stated, not solver-decided, '
               'the mixed FP/real query did not finish on cvc5 or z3 within 600 s): a correctly rounded quotient is within 2^-53 relative error, i.e. < 2.4e-9 BTC < half a satoshi for a <= 21e14, '
               'so the nearest 8-digit decimal is a, distinct amounts give distinct numbers, and the shortest round-tripping repr is that 8-digit decimal; the concrete twin checks the half-satoshi bound with exact rationals',
               'IEEE-754 double semantics as modelled by cvc5/z3 FP']
STUBS = ['json', 'decimal', 'http connection (injected fake)', 'binascii', 'hashlib (UF)']
OUTSIDE = ['wire texts with more than 8 fractional digits', 'real HTTP / json / decimal C code', 'amounts above 21e14 satoshi', 'RPC methods not listed under FUNCTIONS']
EXPECTED_LABELS = ['received amount == satoshis denoted by the wire text', 'sent amount is the correctly rounded quotient a/1e8', 'hash text round trip: returned hash can be passed on unchanged',
                   'hex crossing is the identity', 'error reply raises the registered class', 'request ids strictly increase']
MAX = 2100000000000000
CODES = {-2: 'ForbiddenBySafeModeError', -5: 'InvalidAddressOrKeyError', -8: 'InvalidParameterError', -25: 'VerifyError', -26: 'VerifyRejectedError',
         -27: 'VerifyAlreadyInChainError', -28: 'InWarmupError'}


def bounds(tier):
    return dict(amounts='all satoshi amounts 0..21e14 (symbolic), wire text with 8 fractional digits', hashes='32 symbolic bytes', errors='symbolic integer code -40..10, '
                'non-dict error, missing result, non-JSON body, missing HTTP response', calls='sequences of <= 4 calls per proxy')


class _Resp(object):
    def __init__(self, body):
        self.body, self.status, self.reason = body, 200, 'OK'

    def read(self):
        return self.body


class _Conn(object):
    def __init__(self):
        self.requests, self.replies = [], []

    def request(self, method, path, body, headers):
        self.requests.append((method, path, body, headers))

    def getresponse(self):
        return self.replies.pop(0)

    def close(self):
        pass


def _proxy(ctx):
    R = ctx.mod('bitcoin.rpc')
    conn = _Conn()
    return R, R.Proxy(service_url='http://user:pw@localhost:8332', connection=conn), conn


def _reply(ctx, conn, tree, valid=True):
    if ctx.symbolic:
        from symx import stubs
        conn.replies.append(_Resp(stubs.WireText(tree, valid)))
    else:
        import json
        conn.replies.append(_Resp(json.dumps(tree).encode() if valid else b'<html>not json</html>'))


def _amount(ctx, name):
    """-> (satoshis m, wire value).  symbolic: WireDecimal(m, 8); concrete: the decimal text with 8 fractional digits"""
    m = ctx.int(name, 0, MAX)
    if ctx.symbolic:
        from symx import stubs
        return m, stubs.WireDecimal(m, 8)
    return m, _Lit('%d.%08d' % (m // 100000000, m % 100000000))


class _Lit(float):
    """concrete replay: a JSON number that serialises as the given decimal literal"""

    def __new__(cls, text):
        self = float.__new__(cls, float(text))
        self.text = text
        return self

    def __repr__(self):
        return self.text


def _body(ctx, conn, k=-1):
    """the JSON value of the k-th request"""
    b = conn.requests[k][2]
    if ctx.symbolic:
        return b.value
    import json
    return json.loads(b)


def h_received(ctx, method):
    R, p, conn = _proxy(ctx)
    C = ctx.core
    m, wire = _amount(ctx, 'm')
    hexs = ctx.B(b'\x51')
    hextext = ctx.hexstr(hexs)
    if method == 'getbalance':
        _reply(ctx, conn, dict(result=wire, error=None, id=1))
        got = p.getbalance()
    elif method == 'getreceivedbyaddress':
        _reply(ctx, conn, dict(result=wire, error=None, id=1))
        got = p.getreceivedbyaddress('addr')
    elif method == 'getinfo':
        m2, wire2 = _amount(ctx, 'm2')
        _reply(ctx, conn, dict(result=dict(balance=wire, paytxfee=wire2, version=1), error=None, id=1))
        r = p.getinfo()
        ctx.check(r['paytxfee'] == m2, 'received amount == satoshis denoted by the wire text')
        got = r['balance']
    elif method == 'gettxout':
        bb = ctx.bytes('best', 32)
        _reply(ctx, conn, dict(result=dict(value=wire, scriptPubKey=dict(hex=hextext), bestblock=ctx.hexstr(bb[::-1])), error=None, id=1))
        op = C.COutPoint(ctx.bytes('oph', 32), ctx.int('opn', 0, 0xffffffff))
        r = p.gettxout(op)
        ctx.check(ctx.and_(r['txout'].scriptPubKey == hexs, r['bestblock'] == bb), 'hex crossing is the identity')
        got = r['txout'].nValue
    elif method == 'listunspent':
        txid = ctx.bytes('txid', 32)
        _reply(ctx, conn, dict(result=[dict(txid=ctx.hexstr(txid[::-1]), vout=3, scriptPubKey=hextext, amount=wire)], error=None, id=1))
        r = p.listunspent()
        ctx.check(ctx.and_(r[0]['outpoint'].hash == txid, r[0]['outpoint'].n == 3), 'hash text round trip: returned hash can be passed on unchanged')
        got = r[0]['amount']
    else:
        f = K.mk_tx_fields(ctx, dict(sig=[1], spk=[1], wit=None))
        tx = K.build_tx(ctx, f)
        _reply(ctx, conn, dict(result=dict(hex=ctx.hexstr(W.tx(ctx, f)), fee=wire, changepos=-1), error=None, id=1))
        r = p.fundrawtransaction(tx)
        ctx.check(r['tx'].serialize() == W.tx(ctx, f), 'hex crossing is the identity')
        ctx.check(_body(ctx, conn)['params'][0] == ctx.hexstr(W.tx(ctx, f)), 'hex crossing is the identity')
        got = r['fee']
    ctx.check(got == m, 'received amount == satoshis denoted by the wire text')


def h_sent(ctx, method):
    R, p, conn = _proxy(ctx)
    a = ctx.int('a', 0, MAX)
    txid = ctx.bytes('txid', 32)
    _reply(ctx, conn, dict(result=ctx.hexstr(txid[::-1]), error=None, id=1))
    if method == 'sendtoaddress':
        r = p.sendtoaddress('addr', a)
        num = _body(ctx, conn)['params'][1]
    else:
        r = p.sendmany('acct', {'addr': a})
        num = _body(ctx, conn)['params'][1]['addr']
    ctx.check(r == txid, 'hash text round trip: returned hash can be passed on unchanged')
    # the JSON number is the correctly rounded double quotient a / 1e8 (see ASSUMPTIONS for the half-satoshi argument)
    ctx.check(ctx.float_eq(num, ctx.float_div(a, 100000000)), 'sent amount is the correctly rounded quotient a/1e8')
    if not ctx.symbolic:
        ctx.check(ctx.float_within_half_unit(num, a, 100000000), 'sent amount within half a satoshi')


def h_sent_injective(ctx):
    """two different amounts never produce the same JSON number"""
    R, p, conn = _proxy(ctx)
    a = ctx.int('a', 0, MAX)
    b = ctx.int('b', 0, MAX)
    ctx.assume(a != b)
    for v in (a, b):
        _reply(ctx, conn, dict(result=ctx.hexstr(ctx.B(bytes(32))), error=None, id=1))
        p.sendtoaddress('addr', v)
    ctx.check(ctx.not_(ctx.float_eq(_body(ctx, conn, 0)['params'][1], _body(ctx, conn, 1)['params'][1])), 'sent amounts are injective')


def h_hashes(ctx):
    R, p, conn = _proxy(ctx)
    C = ctx.core
    h = ctx.bytes('h', 32)
    text = ctx.hexstr(h[::-1])
    _reply(ctx, conn, dict(result=text, error=None, id=1))
    got = p.getbestblockhash()
    ctx.check(got == h, 'hash text round trip: returned hash can be passed on unchanged')
    hf = K.mk_header_fields(ctx)
    _reply(ctx, conn, dict(result=ctx.hexstr(W.header(ctx, hf)), error=None, id=2))
    hdr = p.getblockheader(got)
    sent = _body(ctx, conn)['params'][0]
    ctx.check(sent == text, 'hash text round trip: returned hash can be passed on unchanged')
    ctx.check(ctx.and_(K.header_fields_equal(ctx, hdr, hf), hdr.serialize() == W.header(ctx, hf)), 'hex crossing is the identity')
    # raw transaction out and in
    f = K.mk_tx_fields(ctx, dict(sig=[1], spk=[0, 2], wit=[[1]]))
    _reply(ctx, conn, dict(result=ctx.hexstr(W.tx(ctx, f)), error=None, id=3))
    tx = p.getrawtransaction(h)
    ctx.check(_body(ctx, conn)['params'][0] == text, 'hash text round trip: returned hash can be passed on unchanged')
    ctx.check(ctx.and_(K.tx_fields_equal(ctx, tx, f), tx.serialize() == W.tx(ctx, f)), 'hex crossing is the identity')
    _reply(ctx, conn, dict(result=text, error=None, id=4))
    back = p.sendrawtransaction(tx)
    ctx.check(ctx.and_(_body(ctx, conn)['params'][0] == ctx.hexstr(W.tx(ctx, f)), back == h), 'hex crossing is the identity')
    _reply(ctx, conn, dict(result=[text], error=None, id=5))
    ctx.check(p.getrawmempool()[0] == h, 'hash text round trip: returned hash can be passed on unchanged')
    _reply(ctx, conn, dict(result=True, error=None, id=6))
    p.lockunspent(True, [C.COutPoint(h, 7)])
    ctx.check(_body(ctx, conn)['params'][1][0]['txid'] == text, 'hash text round trip: returned hash can be passed on unchanged')
    ids = [_body(ctx, conn, k)['id'] for k in range(len(conn.requests))]
    ctx.check(all(b > a for a, b in zip(ids, ids[1:])), 'request ids strictly increase')


def h_errors(ctx, kind):
    R, p, conn = _proxy(ctx)
    if kind == 'code':
        code = ctx.int('code', -40, 10)
        _reply(ctx, conn, dict(result=None, error=dict(code=code, message='m'), id=1))
    elif kind == 'nocode':
        _reply(ctx, conn, dict(result=5, error=dict(message='m'), id=1))
    elif kind == 'nondict':
        _reply(ctx, conn, dict(result=5, error='boom', id=1))
    elif kind.startswith('falsy'):
        val = {'falsy_dict': {}, 'falsy_str': '', 'falsy_zero': 0, 'falsy_list': [], 'falsy_false': False}[kind]
        _reply(ctx, conn, dict(result=5, error=val, id=1))
    elif kind == 'noresult':
        _reply(ctx, conn, dict(error=None, id=1))
    elif kind == 'nonjson':
        _reply(ctx, conn, None, valid=False)
    else:
        conn.replies.append(None)
    try:
        r = p.getblockcount()
        ctx.fail('error reply raises the registered class', 'returned %r' % (r,))
    except R.JSONRPCError as e:
        if kind == 'code':
            want = None
            for c, name in CODES.items():
                if ctx.is_true(code == c):
                    want = name
            ctx.check(type(e).__name__ == (want or 'JSONRPCError'), 'error reply raises the registered class',
                      detail='got %s' % type(e).__name__)
            ctx.check(e.error['code'] == code, 'error code preserved')
        else:
            ctx.check(type(e) is R.JSONRPCError, 'error reply raises the registered class')
    # the proxy stays usable and ids keep increasing after an error
    _reply(ctx, conn, dict(result=7, error=None, id=2))
    ctx.check(p.getblockcount() == 7, 'proxy usable after an error')
    ids = [_body(ctx, conn, k)['id'] for k in range(len(conn.requests))]
    ctx.check(all(b > a for a, b in zip(ids, ids[1:])), 'request ids strictly increase')


HARNESSES = {'received': h_received, 'sent': h_sent, 'sent_injective': h_sent_injective, 'hashes': h_hashes, 'errors': h_errors}


def instances(tier):
    out = []
    for m in ('getbalance', 'getreceivedbyaddress', 'getinfo', 'gettxout', 'listunspent', 'fundrawtransaction'):
        out.append(dict(h='received', p=dict(method=m), max_seconds=900, backend='cvc5', qto=300000))
    for m in ('sendtoaddress', 'sendmany'):
        out.append(dict(h='sent', p=dict(method=m), backend='cvc5', max_seconds=1500, qto=600000))
    out.append(dict(h='hashes'))
    for k in ('code', 'nocode', 'nondict', 'noresult', 'nonjson', 'noresponse', 'falsy_dict', 'falsy_str', 'falsy_zero', 'falsy_list', 'falsy_false'):
        out.append(dict(h='errors', p=dict(kind=k)))
    return out
