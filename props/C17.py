"""C17 - compact targets and the proof-of-work check follow the consensus definition."""
from refs import ref_codec as R

ID = 'C17'
FUNCTIONS = ['bitcoin.core.serialize.uint256_from_compact', 'bitcoin.core.serialize.compact_from_uint256',
             'bitcoin.core.serialize.uint256_from_str', 'bitcoin.core.CheckProofOfWork',
             'bitcoin.core.Core{Main,TestNet,SigNet,RegTest}Params.PROOF_OF_WORK_LIMIT', 'bitcoin.SelectParams']
ASSUMPTIONS = ['struct stub is an exact model of struct.unpack("<IIIIIIII")']
STUBS = ['struct']
OUTSIDE = ['integers >= 2^256 for encoding', 'compact values outside 32 bits']
CHAINS = ['mainnet', 'testnet', 'signet', 'regtest']


def bounds(tier):
    return dict(compact='all 2^32 values (symbolic)', value='all 0..2^256-1 (symbolic)',
                hash='32 symbolic bytes', chains=CHAINS,
                decode_exponent='symbolic 0..255 (quick: exponents 0..40 symbolic in one query family; '
                                'thorough: all 0..255, enumerated by exponent band)')


def h_decode(ctx, elo, ehi):
    """decode(c) == mantissa*256^(e-3) (truncating) for every c with the sign bit clear, exponent in band"""
    S = ctx.serialize
    c = ctx.int('c', 0, 0xffffffff)
    ctx.assume((c & 0x00800000) == 0)
    e = c >> 24
    ctx.assume(ctx.and_(e >= elo, e <= ehi))
    got = S.uint256_from_compact(c)
    ctx.check(got == R.compact_decode_24(ctx, c), 'decode==mantissa*256^(e-3)')
    ctx.check(got == R.compact_decode_abs(ctx, c), 'decode==core-setcompact')


def h_encode(ctx, lo=0, hi=(1 << 256) - 1):
    S = ctx.serialize
    v = ctx.int('v', lo, hi)
    c = S.compact_from_uint256(v)
    ctx.check((c & 0x00800000) == 0, 'encode: sign bit clear')
    ctx.check(ctx.and_(c >= 0, c <= 0xffffffff), 'encode: fits 32 bits')
    d = S.uint256_from_compact(c)
    ctx.check(d == R.trunc3_signsafe(ctx, v), 'decode(encode(v)) == v truncated to 3 sign-safe bytes')
    c2 = S.compact_from_uint256(d)
    ctx.check(c2 == c, 'encode(decode(c)) == c for canonical c')


def h_encode_small(ctx):
    """values that fit three bytes are represented exactly"""
    S = ctx.serialize
    v = ctx.int('v', 0, 0x7fffff)
    c = S.compact_from_uint256(v)
    ctx.check(S.uint256_from_compact(c) == v, 'small values exact')


def h_pow(ctx, chain):
    ctx.select_chain(chain)
    core = ctx.core
    c = ctx.int('c', 0, 0xffffffff)
    h = ctx.bytes('h', 32)
    limit = {'mainnet': (1 << 224) - 1, 'testnet': (1 << 224) - 1, 'signet': (1 << 224) - 1,
             'regtest': (1 << 255) - 1}[chain]
    ctx.check(core.coreparams.PROOF_OF_WORK_LIMIT == limit, 'chain work limit')
    hv = R.int_from_le(h)
    ctx.check(ctx.serialize.uint256_from_str(h) == hv, 'hash read little-endian')
    want = R.pow_ok(ctx, limit, hv, c)
    try:
        core.CheckProofOfWork(h, c)
        ok = True
    except core.CheckProofOfWorkError as e:
        ok = False
        ctx.check(isinstance(e, core.ValidationError), 'rejection is a validation error')
    if ok:
        ctx.check(want, 'accepted => reference accepts')
    else:
        ctx.check(ctx.not_(want), 'rejected => reference rejects')


def h_pow_history(ctx, chain_a, chain_b, c_fixed=None):
    """the same compact target checked under chain A and then, in the same process, under chain B
    (c symbolic, or one of the chains' limit encodings with only the hash symbolic)"""
    core = ctx.core
    c = ctx.int('c', 0, 0xffffffff) if c_fixed is None else c_fixed
    limits = {'mainnet': (1 << 224) - 1, 'testnet': (1 << 224) - 1, 'signet': (1 << 224) - 1, 'regtest': (1 << 255) - 1}
    for k, chain in enumerate((chain_a, chain_b, chain_a)):
        ctx.select_chain(chain)
        h = ctx.bytes('h%d' % k, 32)
        want = R.pow_ok(ctx, limits[chain], R.int_from_le(h), c)
        try:
            core.CheckProofOfWork(h, c)
            ctx.check(want, 'accepted => reference accepts', detail='step %d under %s' % (k, chain))
        except core.CheckProofOfWorkError:
            ctx.check(ctx.not_(want), 'rejected => reference rejects', detail='step %d under %s' % (k, chain))
    ctx.select_chain('mainnet')


HARNESSES = {'pow_history': h_pow_history, 'decode': h_decode, 'encode': h_encode, 'encode_small': h_encode_small, 'pow': h_pow}
EXPECTED_LABELS = ['decode==mantissa*256^(e-3)', 'accepted => reference accepts', 'rejected => reference rejects',
                   'encode(decode(c)) == c for canonical c']


def instances(tier):
    out = []
    bands = [(0, 8), (9, 40)] if tier == 'quick' else [(a, min(a + 15, 255)) for a in range(0, 256, 16)]
    for lo, hi in bands:
        out.append(dict(h='decode', p=dict(elo=lo, ehi=hi)))
    cuts = [0, 1 << 24, 1 << 64, 1 << 128, 1 << 192, 1 << 224, 1 << 256]
    for a, b in zip(cuts, cuts[1:]):
        out.append(dict(h='encode', p=dict(lo=a, hi=b - 1)))
    out.append(dict(h='encode_small'))
    for ch in CHAINS:
        out.append(dict(h='pow', p=dict(chain=ch)))
    for a, b in (('regtest', 'mainnet'), ('mainnet', 'regtest'), ('regtest', 'signet')):
        out.append(dict(h='pow_history', p=dict(chain_a=a, chain_b=b)))
        for cf in (0x207fffff, 0x1d00ffff, 0x2000ffff):
            out.append(dict(h='pow_history', p=dict(chain_a=a, chain_b=b, c_fixed=cf)))
    return out
