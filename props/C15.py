"""C15 - merkle roots, witness merkle root and weights equal their definitions."""
from refs import ref_wire as W
from refs import ref_merkle as M
from props import common as K

ID = 'C15'
FUNCTIONS = ['core.CBlock.build_merkle_tree_from_txids', 'core.CBlock.build_merkle_tree_from_txs', 'core.CBlock.calc_merkle_root',
             'core.CBlock.build_witness_merkle_tree_from_txs', 'core.CBlock.calc_witness_merkle_root', 'core.CBlock.__init__',
             'core.CTransaction.calc_weight', 'core.CBlock.GetWeight']
ASSUMPTIONS = ['ctor_node harness: double-SHA256 collision-free among the applications of a path (a declared root equal to an inner node is then != the root)',
               'SHA-256 as an uninterpreted function with congruence: roots are compared as nested hash terms over the same '
               'function symbol, which decides equality of the tree *shape and leaf order* for all leaf values']
STUBS = ['hashlib (UF)', 'struct', 'io.BytesIO']
OUTSIDE = ['transaction counts above 70', 'weight shapes beyond the C01 bounds']
EXPECTED_LABELS = ['merkle root == reference', 'witness merkle root == reference (coinbase entry zeroed)',
                   'constructor: mismatching declared root refused', 'constructor: zero root filled in',
                   'tx weight == 3*stripped + full', 'block weight == 3*stripped + full']


def bounds(tier):
    return dict(counts=COUNTS_Q if tier == 'quick' else 'all 1..70', txids='32 symbolic bytes each (duplicates are reachable assignments)',
                blocks='1..3 transactions of symbolic fields for root/constructor/weight')


COUNTS_Q = list(range(1, 21)) + [31, 32, 33, 63, 64, 65]


def h_txids(ctx, n):
    C = ctx.core
    ids = [ctx.bytes('id%d' % i, 32) for i in range(n)]
    tree = C.CBlock.build_merkle_tree_from_txids(ids)
    ctx.check(tree[-1] == M.merkle_root(ctx, ids), 'merkle root == reference')
    ctx.check(ctx.and_(*[a == b for a, b in zip(tree[:n], ids)]), 'tree starts with the leaves')


def h_txids_dup(ctx, n):
    """CVE-2012-2459 shape: explicit duplicate of the last id gives the same root as the odd list"""
    C = ctx.core
    ids = [ctx.bytes('id%d' % i, 32) for i in range(n)]
    a = C.CBlock.build_merkle_tree_from_txids(ids)[-1]
    b = C.CBlock.build_merkle_tree_from_txids(ids + [ids[-1]])[-1]
    if n % 2 == 1 and n > 1:
        ctx.check(a == b, 'odd list == list with last duplicated')
    ctx.check(b == M.merkle_root(ctx, ids + [ids[-1]]), 'merkle root == reference')


def _mk_block(ctx, txshapes, declared):
    C = ctx.core
    hf = K.mk_header_fields(ctx)
    tfs = [K.mk_tx_fields(ctx, sh, pre='t%d' % k) for k, sh in enumerate(txshapes)]
    txs = [K.build_tx(ctx, f) for f in tfs]
    return hf, tfs, txs


def h_block(ctx, txshapes):
    C = ctx.core
    hf, tfs, txs = _mk_block(ctx, txshapes, None)
    txids = [ctx.dsha256(W.tx(ctx, f, with_witness=False)) for f in tfs]
    wtxids = [ctx.dsha256(W.tx(ctx, f)) for f in tfs]
    root = M.merkle_root(ctx, txids)
    anyw = any(W.has_witness(f) for f in tfs)
    # constructor with a symbolic declared root
    declared = hf['hashMerkleRoot']
    zero = ctx.B(b'\x00' * 32)
    try:
        blk = C.CBlock(hf['nVersion'], hf['hashPrevBlock'], declared, hf['nTime'], hf['nBits'], hf['nNonce'], txs)
        ctx.check(ctx.or_(declared == zero, declared == root), 'constructor: mismatching declared root refused')
        ctx.check(blk.hashMerkleRoot == root, 'constructor: zero root filled in')
    except C.CheckBlockError:
        ctx.check(ctx.and_(ctx.not_(declared == zero), ctx.not_(declared == root)), 'constructor: refused only on mismatch')
        blk = C.CBlock(hf['nVersion'], hf['hashPrevBlock'], zero, hf['nTime'], hf['nBits'], hf['nNonce'], txs)
        ctx.check(blk.hashMerkleRoot == root, 'constructor: zero root filled in')
    ctx.check(blk.calc_merkle_root() == root, 'merkle root == reference')
    ctx.check(C.CBlock.build_merkle_tree_from_txs(txs)[-1] == root, 'merkle root == reference')
    wl = [zero] + wtxids[1:]
    try:
        wr = blk.calc_witness_merkle_root()
        ctx.check(anyw, 'witness root only when some tx has witness')
        ctx.check(wr == M.merkle_root(ctx, wl), 'witness merkle root == reference (coinbase entry zeroed)')
    except C.NoWitnessData:
        ctx.check(not anyw, 'NoWitnessData iff no tx has witness')
    # weights
    for t, f in zip(txs, tfs):
        if len(f['vout']) > 0:
            ctx.check(t.calc_weight() == 3 * len(W.tx(ctx, f, False)) + len(W.tx(ctx, f)), 'tx weight == 3*stripped + full')
    hf2 = dict(hf)
    hf2['hashMerkleRoot'] = root
    ctx.check(blk.GetWeight() == 3 * len(W.block(ctx, hf2, tfs, False)) + len(W.block(ctx, hf2, tfs)),
              'block weight == 3*stripped + full')


def h_ctor_node(ctx, txshapes, which):
    """the declared root is one of the tree's own nodes (a txid or an inner node) rather than the root: must be refused"""
    C = ctx.core
    ctx.set_state('collision_free', True)
    hf, tfs, txs = _mk_block(ctx, txshapes, None)
    tree = C.CBlock.build_merkle_tree_from_txs(txs)
    declared = tree[which]
    root = M.merkle_root(ctx, [ctx.dsha256(W.tx(ctx, f, with_witness=False)) for f in tfs])
    try:
        C.CBlock(hf['nVersion'], hf['hashPrevBlock'], declared, hf['nTime'], hf['nBits'], hf['nNonce'], txs)
        ctx.check(ctx.or_(declared == root, declared == ctx.B(bytes(32))), 'constructor: mismatching declared root refused')
    except C.CheckBlockError:
        ctx.check(ctx.not_(declared == root), 'constructor: refused only on mismatch')


def h_ctor_mut(ctx, txshapes, which):
    """history: a block built from MUTABLE transaction objects that the caller edits afterwards: the block's stored root, its
    tree and its weight still describe block.vtx"""
    C = ctx.core
    hf, tfs, _ = _mk_block(ctx, txshapes, None)
    txs = [K.build_tx(ctx, f, True) for f in tfs]
    zero = ctx.B(bytes(32))
    blk = C.CBlock(hf['nVersion'], hf['hashPrevBlock'], zero, hf['nTime'], hf['nBits'], hf['nNonce'], txs)
    stored = blk.hashMerkleRoot
    w0 = blk.GetWeight()
    # the caller goes on editing its own objects
    txs[which].nLockTime = ctx.int('edit_locktime', 0, 0xffffffff)
    if len(txs[which].vout) > 0:
        txs[which].vout[0].nValue = ctx.int('edit_value', 0, 1000)
    txs[which].vin[0].nSequence = ctx.int('edit_seq', 0, 0xffffffff)
    ctx.check(blk.hashMerkleRoot == stored, 'merkle root == reference', detail='stored root stable')
    now = M.merkle_root(ctx, [t.GetTxid() for t in blk.vtx])
    ctx.check(blk.hashMerkleRoot == now, 'merkle root == reference', detail='stored root == root over block.vtx after the caller edited its transactions')
    ctx.check(blk.calc_merkle_root() == blk.hashMerkleRoot, 'merkle root == reference', detail='calc_merkle_root == stored root after the edit')
    ctx.check(blk.GetWeight() == w0, 'block weight == 3*stripped + full', detail='weight stable after the caller edited its transactions')
    hf2 = dict(hf)
    hf2['hashMerkleRoot'] = stored
    ctx.check(blk.serialize() == W.block(ctx, hf2, tfs), 'merkle root == reference', detail='block serialisation is that of the original transactions')


def h_deser_block(ctx, txshapes):
    """a block arriving from the wire: roots of the deserialised object"""
    C = ctx.core
    hf, tfs, txs = _mk_block(ctx, txshapes, None)
    raw = W.block(ctx, hf, tfs)
    blk = C.CBlock.deserialize(raw)
    txids = [ctx.dsha256(W.tx(ctx, f, with_witness=False)) for f in tfs]
    ctx.check(blk.calc_merkle_root() == M.merkle_root(ctx, txids), 'merkle root == reference')
    ctx.check(blk.vMerkleTree[-1] == M.merkle_root(ctx, txids), 'merkle root == reference')
    ctx.check(blk.GetWeight() == 3 * len(W.block(ctx, hf, tfs, False)) + len(raw), 'block weight == 3*stripped + full')


HARNESSES = {'ctor_mut': h_ctor_mut, 'ctor_node': h_ctor_node, 'txids': h_txids, 'txids_dup': h_txids_dup, 'block': h_block, 'deser_block': h_deser_block}


def instances(tier):
    out = []
    counts = COUNTS_Q if tier == 'quick' else list(range(1, 71))
    for n in counts:
        out.append(dict(h='txids', p=dict(n=n)))
    for n in ([1, 2, 3, 5, 7, 9] if tier == 'quick' else range(1, 40)):
        out.append(dict(h='txids_dup', p=dict(n=n)))
    t_a = dict(sig=[1], spk=[1], wit=None)
    t_b = dict(sig=[0, 2], spk=[3, 0], wit=None)
    t_w = dict(sig=[0], spk=[0], wit=[[1]])
    t_w2 = dict(sig=[1, 0], spk=[2], wit=[[], [0, 2]])
    t_e = dict(sig=[1], spk=[1], wit=[[]])
    t_z = dict(sig=[1], spk=[1], wit=[[0]])
    shapes = [[t_a], [t_w], [t_a, t_a], [t_a, t_w], [t_w, t_a], [t_a, t_b, t_w2], [t_w, t_w2, t_a], [t_e, t_a], [t_a, t_a, t_a], [t_a, t_z], [t_z]]
    if tier != 'quick':
        shapes += [[t_a, t_b, t_w, t_w2], [t_w2] * 5, [t_a] * 7]
    for sh, which in (([t_a, t_a], 0), ([t_a, t_b], 1), ([t_a, t_a, t_a], 3), ([t_a, t_b, t_a], 2), ([t_a, t_a, t_a], 4)):
        out.append(dict(h='ctor_node', p=dict(txshapes=sh, which=which)))
    for sh, which in (([t_a], 0), ([t_a, t_b], 1), ([t_w, t_a], 0), ([t_a, t_a, t_w2], 2)):
        out.append(dict(h='ctor_mut', p=dict(txshapes=sh, which=which)))
    for sh in shapes:
        out.append(dict(h='block', p=dict(txshapes=sh)))
        out.append(dict(h='deser_block', p=dict(txshapes=sh)))
    return out
