"""C16 - context-free transaction and block checks accept exactly rule-conforming objects."""
from refs import ref_wire as W
from refs import ref_rules as RR
from refs import ref_codec as RC
from refs import ref_merkle as M
from props import common as K

ID = 'C16'
FUNCTIONS = ['core.MoneyRange', 'core.CheckTransaction', 'core.CheckBlockHeader', 'core.CheckProofOfWork', 'core.GetLegacySigOpCount',
             'script.CScript.GetSigOpCount', 'core.CheckBlock', 'core.CBlock.get_witness_commitment_index', 'core.CTransaction.is_coinbase',
             'core.CBlock.stream_deserialize (merkle trees)']
ASSUMPTIONS = ['block harness: double-SHA256 is collision-free among the hash applications of a path (added as constraints)',
               'SHA-256 uninterpreted (merkle roots / commitments are offered to the library as reference value + symbolic delta, so that '
               'matching and non-matching values are both reachable and replay reproduces)',
               'witness commitment rule = BIP141 (last output >= 38 bytes with the 6-byte header); commitment scripts longer than 39 bytes are outside the shapes']
STUBS = ['hashlib (UF)', 'struct', 'io.BytesIO', 'time.time (not reached: cur_time is always passed)']
OUTSIDE = ['more than 3 transactions per block / 3 inputs or outputs per transaction', 'the > 1 MB size and > 4 M weight rules are exercised with '
           'one concrete-filler shape on each side only', 'commitment scripts longer than 39 bytes',
           'PoW acceptance inside CheckBlock depends on the (uninterpreted) header hash; its exactness is C17']
EXPECTED_LABELS = ['tx: accepted => reference accepts', 'tx: rejected => reference rejects', 'block: accepted => reference accepts',
                   'block: rejected => reference rejects', 'block: rejection is a validation error']
CHAINS = ['mainnet', 'testnet', 'signet', 'regtest']
MAX_MONEY = 21000000 * 100000000


def bounds(tier):
    return dict(tx='n_in 0..3, n_out 0..3, values symbolic over all int64, prevouts symbolic (duplicates/null reachable), coinbase script '
                   'length in {0,1,2,100,101}, four chains', block='1..3 transactions; declared root / commitment = reference + symbolic delta; '
                   'nTime, cur_time symbolic; sigops 19 999 / 20 000 / 20 001 by concrete repetition + symbolic tail; coinbase witness stack '
                   'of 0, 1 (31/32/33 bytes), 2 items; commitment present/absent/non-last output')


def h_tx(ctx, chain, sig, spk, nullable):
    ctx.select_chain(chain)
    C = ctx.core
    f = K.mk_tx_fields(ctx, dict(sig=sig, spk=spk, wit=None))
    if not nullable:
        # steer away from the coinbase/null forks to keep the value/duplicate analysis cheap
        for i in f['vin']:
            ctx.assume(i['n'] != 0xffffffff)
    tx = K.build_tx(ctx, f)
    want = RR.check_tx(ctx, f, C.coreparams.MAX_MONEY)
    ctx.check(C.coreparams.MAX_MONEY == MAX_MONEY, 'chain money limit')
    try:
        C.CheckTransaction(tx)
        ctx.check(want, 'tx: accepted => reference accepts')
    except C.CheckTransactionError as e:
        ctx.check(ctx.not_(want), 'tx: rejected => reference rejects')
        ctx.check(isinstance(e, C.ValidationError), 'tx: rejection is a validation error')


def h_tx_big(ctx, over, witness=False):
    """stripped size exactly at / one byte over the limit (concrete filler); witness=True: a small stripped
    transaction whose witness alone exceeds the limit (the rule is on the stripped size)"""
    C = ctx.core
    n = 1000000 - 60 - 1 + (1 if over else 0)
    if witness:
        n = 1
    f = dict(nVersion=1, nLockTime=0, wit=[[ctx.B(bytes(1000001))]] if witness else None,
             vin=[dict(hash=ctx.bytes('h', 32), n=ctx.int('n', 0, 0xfffffffe), scriptSig=ctx.B(b''), nSequence=0)],
             vout=[dict(nValue=ctx.int('v', 0, MAX_MONEY), scriptPubKey=ctx.B(bytes([0x6a]) * n))])
    tx = K.build_tx(ctx, f)
    size = len(W.tx(ctx, f, False))
    try:
        C.CheckTransaction(tx)
        ctx.check(size <= 1000000, 'tx: accepted => reference accepts')
    except C.CheckTransactionError:
        ctx.check(size > 1000000, 'tx: rejected => reference rejects')


def _coinbase_fields(ctx, pre, siglen, spks, wit):
    """coinbase-shaped transaction whose prevout is symbolic (so 'is coinbase' is decided by the solver)"""
    f = K.mk_tx_fields(ctx, dict(sig=[siglen], spk=[len(s) if not isinstance(s, int) else s for s in spks], wit=wit), pre=pre)
    for k, s in enumerate(spks):
        if not isinstance(s, int):
            f['vout'][k]['scriptPubKey'] = s
    return f


def h_block(ctx, chain, shape):
    """shape: dict(cb_sig, cb_spk=[...], cb_wit, txs=[tx shapes], commit: none|last|notlast|short|long, sigops: None|int, pow: bool)"""
    ctx.select_chain(chain)
    ctx.set_state('collision_free', True)
    C = ctx.core
    hf = K.mk_header_fields(ctx)
    commit = shape.get('commit', 'none')
    cs = not shape.get('sym_scripts')
    sv = bool(shape.get('sigops') is not None or shape.get('commit') or shape.get('small_values'))
    others = [K.mk_tx_fields(ctx, dict(sh, concrete_scripts=cs, small_values=sv), pre='t%d' % (k + 1)) for k, sh in enumerate(shape.get('txs', []))]
    # coinbase
    cbw = shape.get('cb_wit')
    cb = K.mk_tx_fields(ctx, dict(sig=[shape.get('cb_sig', 2)], spk=shape.get('cb_spk', [1]), wit=cbw, concrete_scripts=cs, small_values=sv), pre='cb')
    if shape.get('sigops') is not None:
        # one output carrying  k x OP_CHECKMULTISIG (20 sigops each) + r x OP_CHECKSIG, then a 2-byte symbolic tail
        k, r = divmod(shape['sigops'], 20)
        cb['vout'][0]['scriptPubKey'] = ctx.B(bytes([0xae]) * k + bytes([0xac]) * r) + ctx.bytes('sigtail', 2)
    txs = [cb] + others
    if commit != 'none':
        wl = [ctx.B(bytes(32))] + [ctx.dsha256(W.tx(ctx, t)) for t in txs[1:]]
        wroot = M.merkle_root(ctx, wl)
        nonce = cb['wit'][0][0] if (cb.get('wit') and len(cb['wit']) and len(cb['wit'][0])) else ctx.B(bytes(32))
        good = ctx.dsha256(wroot + nonce)
        d = ctx.int('commit_delta', 0, 255)
        val = ctx.bytes_of([(good[0] + d) % 256]) + good[1:]
        script = ctx.B(RR.COMMIT_MAGIC) + val
        if commit == 'short':
            script = script[:37]
        if commit == 'plus1':
            script = script + ctx.bytes('commit_extra', 1)
        out = dict(nValue=ctx.int('commit_val', 0, 1000), scriptPubKey=script)
        if commit == 'notlast':
            cb['vout'] = [out] + cb['vout']
        else:
            cb['vout'] = cb['vout'] + [out]
    # merkle root: reference value + delta
    txids = [ctx.dsha256(W.tx(ctx, t, with_witness=False)) for t in txs]
    root = M.merkle_root(ctx, txids)
    rd = ctx.int('root_delta', 0, 255)
    hf['hashMerkleRoot'] = ctx.bytes_of([(root[0] + rd) % 256]) + root[1:]
    raw = W.block(ctx, hf, txs)
    blk = C.CBlock.deserialize(raw)
    cur_time = ctx.int('cur_time', 0, (1 << 33))
    check_pow = bool(shape.get('pow'))
    if check_pow:
        hv = RC.int_from_le(ctx.dsha256(W.header(ctx, hf)))
        pow_ok = RC.pow_ok(ctx, C.coreparams.PROOF_OF_WORK_LIMIT, hv, hf['nBits'])
    else:
        pow_ok = True
    want = RR.check_block(ctx, hf, txs, C.coreparams.MAX_MONEY, cur_time, pow_ok)
    try:
        C.CheckBlock(blk, fCheckPoW=check_pow, cur_time=cur_time)
        ctx.check(want, 'block: accepted => reference accepts')
    except C.ValidationError as e:
        ctx.check(ctx.not_(want), 'block: rejected => reference rejects')
        ctx.check(isinstance(e, C.ValidationError), 'block: rejection is a validation error')


def h_empty_block(ctx):
    C = ctx.core
    hf = K.mk_header_fields(ctx)
    blk = C.CBlock.deserialize(W.block(ctx, hf, []))
    try:
        C.CheckBlock(blk, fCheckPoW=False, cur_time=ctx.int('cur_time', 0, 1 << 33))
        ctx.fail('block: accepted => reference accepts', 'empty block accepted')
    except C.ValidationError:
        ctx.check(True, 'block: rejected => reference rejects')


def h_header(ctx, chain):
    ctx.select_chain(chain)
    C = ctx.core
    hf = K.mk_header_fields(ctx)
    h = C.CBlockHeader(hf['nVersion'], hf['hashPrevBlock'], hf['hashMerkleRoot'], hf['nTime'], hf['nBits'], hf['nNonce'])
    cur_time = ctx.int('cur_time', 0, 1 << 33)
    hv = RC.int_from_le(ctx.dsha256(W.header(ctx, hf)))
    want = ctx.and_(RC.pow_ok(ctx, C.coreparams.PROOF_OF_WORK_LIMIT, hv, hf['nBits']), ctx.not_(hf['nTime'] > cur_time + 7200))
    try:
        C.CheckBlockHeader(h, cur_time=cur_time)
        ctx.check(want, 'header: accepted => reference accepts')
    except C.CheckBlockHeaderError:
        ctx.check(ctx.not_(want), 'header: rejected => reference rejects')
    # without PoW only the timestamp rule remains (boundary exactly 2h)
    try:
        C.CheckBlockHeader(h, fCheckPoW=False, cur_time=cur_time)
        ctx.check(ctx.not_(hf['nTime'] > cur_time + 7200), 'header: timestamp rule')
    except C.CheckBlockHeaderError:
        ctx.check(hf['nTime'] > cur_time + 7200, 'header: timestamp rule')


HARNESSES = {'tx': h_tx, 'tx_big': h_tx_big, 'block': h_block, 'empty_block': h_empty_block, 'header': h_header}


def instances(tier):
    out = []
    for chain in CHAINS:
        out.append(dict(h='header', p=dict(chain=chain)))
    # CheckTransaction
    for chain in (CHAINS if tier != 'quick' else ['mainnet', 'regtest']):
        for nin in range(0, 4):
            for nout in range(0, 4):
                if tier == 'quick' and nin + nout > 4:
                    continue
                out.append(dict(h='tx', p=dict(chain=chain, sig=[1] * nin, spk=[1] * nout, nullable=False)))
    for sl in (0, 1, 2, 100, 101):
        for nin in (1, 2):
            out.append(dict(h='tx', p=dict(chain='mainnet', sig=[sl] + [0] * (nin - 1), spk=[0], nullable=True)))
    out.append(dict(h='tx', p=dict(chain='testnet', sig=[2, 0, 0], spk=[0, 0], nullable=True)))
    out.append(dict(h='tx_big', p=dict(over=False)))
    out.append(dict(h='tx_big', p=dict(over=True)))
    out.append(dict(h='tx_big', p=dict(over=False, witness=True)))
    out.append(dict(h='empty_block'))
    # CheckBlock
    t1 = dict(sig=[1], spk=[1], wit=None)
    t2 = dict(sig=[0, 0], spk=[0], wit=None)
    tw = dict(sig=[0], spk=[0], wit=[[1]])
    nonce32 = [[32]]
    shapes = [
        dict(cb_sig=2, cb_spk=[1]),
        dict(cb_sig=2, cb_spk=[1], sym_scripts=True, small_values=True),
        dict(cb_sig=1, cb_spk=[1]),
        dict(cb_sig=100, cb_spk=[0]),
        dict(cb_sig=101, cb_spk=[0]),
        dict(cb_sig=2, cb_spk=[]),
        dict(cb_sig=2, cb_spk=[1], txs=[t1]),
        dict(cb_sig=2, cb_spk=[0], txs=[t1, t1]),
        dict(cb_sig=2, cb_spk=[0], txs=[t2]),
        dict(cb_sig=2, cb_spk=[1], pow=True),
        dict(cb_sig=2, cb_spk=[0], sigops=19999),
        dict(cb_sig=2, cb_spk=[0], sigops=20000),
        dict(cb_sig=2, cb_spk=[0], sigops=20001),
        # witness data present
        dict(cb_sig=2, cb_spk=[0], cb_wit=nonce32, txs=[tw], commit='last'),
        dict(cb_sig=2, cb_spk=[0], cb_wit=nonce32, txs=[tw], commit='notlast'),
        dict(cb_sig=2, cb_spk=[0], cb_wit=nonce32, txs=[tw], commit='none'),
        dict(cb_sig=2, cb_spk=[0], cb_wit=nonce32, txs=[tw], commit='short'),
        dict(cb_sig=2, cb_spk=[0], cb_wit=nonce32, txs=[tw], commit='plus1'),
        dict(cb_sig=2, cb_spk=[0], cb_wit=None, txs=[tw], commit='last'),
        dict(cb_sig=2, cb_spk=[0], cb_wit=[[]], txs=[tw], commit='last'),
        dict(cb_sig=2, cb_spk=[0], cb_wit=[[31]], txs=[tw], commit='last'),
        dict(cb_sig=2, cb_spk=[0], cb_wit=[[33]], txs=[tw], commit='last'),
        dict(cb_sig=2, cb_spk=[0], cb_wit=[[32, 1]], txs=[tw], commit='last'),
        dict(cb_sig=2, cb_spk=[0], cb_wit=nonce32, txs=[], commit='last'),
        dict(cb_sig=2, cb_spk=[0], cb_wit=nonce32, txs=[t1, tw], commit='last'),
        dict(cb_sig=2, cb_spk=[0], cb_wit=nonce32, txs=[tw, tw], commit='last'),
    ]
    if tier != 'quick':
        shapes.append(dict(cb_sig=2, cb_spk=[0], sigops=19980, txs=[dict(sig=[1], spk=[2], wit=None)]))
        shapes.append(dict(cb_sig=2, cb_spk=[1, 0], txs=[t1, t2]))
    for k, sh in enumerate(shapes):
        out.append(dict(h='block', p=dict(chain=CHAINS[k % 4] if tier != 'quick' else ('mainnet' if k % 2 else 'regtest'), shape=sh), max_seconds=int(__import__('os').environ.get('C16_BUDGET', '1500'))))
    return out
